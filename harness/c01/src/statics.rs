//! Statically typed combinator trees: no recursive enum, hence no props erasure between the layers —
//! the combinators are instantiated at each other exactly as user code would write them. Each shape
//! comes with the equivalent spec (already numbered) so the same reference model judges it.

use std::sync::Arc;

use emit::emitter::{self, wrapping, ErasedEmitter};
use emit::filter::{self, ErasedFilter};
use emit::platform::thread_local_ctxt::ThreadLocalCtxt;
use emit::props::ErasedProps;
use emit::runtime::{AssertInternal, Runtime};
use emit::{Ctxt, Emitter, Empty, Event, Filter, Frame, Props};
use serde::{Deserialize, Serialize};
use vcore::{vassert, Cx, Res};

use crate::model::*;
use crate::run::*;
use crate::spec::*;
use crate::trees::*;
use crate::with_ctxt;

pub const SHAPES: u8 = 5;

#[derive(Serialize, Deserialize, Debug, Clone)]
pub struct StaticCase {
    pub shape: u8,
    pub evt: EvSpec,
    pub ambient: Vec<(u8, Val)>,
    pub ctxt: CtxtKind,
    pub clock: Option<Ts>,
    /// predicates of the (up to four) filter leaves of the shape
    pub preds: [Pred; 4],
    /// scripted flush answers of the (up to three) emitter leaves
    pub flushes: [bool; 3],
    pub when: Option<Pred>,
    pub entry: Entry,
    pub macro_a: i64,
    pub macro_b: u8,
    pub by_value: bool,
    pub prepend: (u8, Val),
    pub nested_ctxt: Vec<(u8, Val)>,
    pub nested_clock: Option<Ts>,
    /// entry points of the nested emissions of shape 4: [the filter leaf that logs its decision, the tee]
    #[serde(default = "default_vias")]
    pub vias: [Via; 2],
    #[serde(default)]
    pub state: ThreadState,
}

fn default_vias() -> [Via; 2] {
    [Via::MacroTpl(0), Via::MacroEvt]
}

fn audit_on(sc: &StaticCase) -> AuditOn {
    [AuditOn::Reject, AuditOn::Always, AuditOn::Accept][sc.macro_b as usize % 3]
}

fn fl(id: u32, p: &Pred) -> Box<FS> {
    Box::new(FS::Leaf { id, pred: p.clone() })
}
fn el(id: u32, flush: bool) -> Box<ES> {
    Box::new(ES::Leaf { id, flush })
}
fn rf(id: u32, p: &Pred) -> RecFilter {
    RecFilter { id, pred: p.clone() }
}
fn re(id: u32, flush: bool) -> RecEmitter {
    RecEmitter { id, flush }
}

const L1: u32 = ID_FILTER;
const L2: u32 = ID_FILTER + 1;
const L3: u32 = ID_FILTER + 2;
const L4: u32 = ID_DEST + 50;
const L5: u32 = ID_DEST + 51;
const M1: u32 = ID_DEST;
const M2: u32 = ID_DEST + 1;
const M3: u32 = ID_DEST + 2;
const WHEN: u32 = ID_WHEN;

/// The spec equivalent to each shape built in `check_static`.
fn spec_of(sc: &StaticCase) -> (FS, ES) {
    let p = &sc.preds;
    let fz = &sc.flushes;
    match sc.shape % SHAPES {
        0 => (
            FS::Or(
                Box::new(FS::And(fl(L1, &p[0]), fl(L2, &p[1]))),
                Box::new(FS::Opt(Some(fl(L3, &p[2])))),
            ),
            ES::Wrap(
                Box::new(ES::And(
                    Box::new(ES::And(el(M1, fz[0]), Box::new(ES::Opt(Some(el(M2, fz[1])))))),
                    Box::new(ES::Opt(None)),
                )),
                WS::Filter(*fl(L4, &p[3])),
            ),
        ),
        1 => (
            FS::And(
                Box::new(FS::Boxed(Box::new(FS::Arc(Box::new(FS::Or(fl(L1, &p[0]), fl(L2, &p[1]))))))),
                Box::new(FS::AssertInternal(fl(L3, &p[2]))),
            ),
            ES::Wrap(
                Box::new(ES::Arc(Box::new(ES::And(
                    Box::new(ES::Boxed(el(M1, fz[0]))),
                    Box::new(ES::AssertInternal(el(M2, fz[1]))),
                )))),
                WS::Prepend(sc.prepend.0, sc.prepend.1.clone()),
            ),
        ),
        2 => (
            FS::And(Box::new(FS::Ref(fl(L1, &p[0]))), Box::new(FS::ErasedPlain(fl(L2, &p[1])))),
            ES::And(
                Box::new(ES::Ref(el(M1, fz[0]))),
                Box::new(ES::Rt {
                    emitter: Box::new(ES::And(el(M2, fz[1]), el(M3, fz[2]))),
                    filter: *fl(L4, &p[3]),
                    ctxt: sc.nested_ctxt.clone(),
                    clock: sc.nested_clock,
                }),
            ),
        ),
        // nested emission: a filter leaf that logs its decision into an audit runtime, and a destination
        // that tees into a second pipeline (optionally with a call-site filter)
        4 => (
            FS::And(
                fl(L1, &p[0]),
                Box::new(FS::Audit {
                    id: L2,
                    pred: p[1].clone(),
                    on: audit_on(sc),
                    fwd: Box::new(FwdSpec {
                        via: sc.vias[0],
                        a: sc.macro_a,
                        when: None,
                        emitter: *el(M3, true),
                        filter: *fl(L3, &p[2]),
                        ctxt: sc.nested_ctxt.clone(),
                        clock: sc.nested_clock,
                    }),
                }),
            ),
            ES::And(
                el(M1, fz[0]),
                Box::new(ES::Fwd(Box::new(FwdSpec {
                    via: sc.vias[1],
                    a: sc.macro_a,
                    when: if fz[2] { Some(*fl(L5, &p[0])) } else { None },
                    emitter: *el(M2, fz[1]),
                    filter: *fl(L4, &p[3]),
                    ctxt: sc.nested_ctxt.clone(),
                    clock: sc.nested_clock,
                }))),
            ),
        ),
        _ => (
            FS::Or(
                Box::new(FS::Erased(Box::new(FS::And(fl(L1, &p[0]), fl(L2, &p[1]))))),
                Box::new(FS::FromFn {
                    id: L3,
                    pred: p[2].clone(),
                }),
            ),
            ES::And(
                Box::new(ES::Erased(Box::new(ES::And(el(M1, fz[0]), el(M2, fz[1]))))),
                Box::new(ES::FromFn { id: M3 }),
            ),
        ),
    }
}

/// Everything the dynamic driver does except the all-erased rebuild, on statically typed trees.
fn exercise<TF: Filter, TE: Emitter, C: Ctxt>(
    c: &Case,
    m: &Model,
    f: &TF,
    when: Option<&RecFilter>,
    e: &TE,
    ctxt: &C,
    cx: &mut Cx,
) -> Result<Vec<Rec>, vcore::Fail> {
    let ev = EvData::new(&c.evt);
    let clock = K::new(0, c.clock);
    let log1 = run_generic(c, &ev, f, when, e, ctxt, &clock);
    compare(&log1, &m.main, m.accepted, "static/emit", cx)?;
    straight(c, m, &ev, f, e, ctxt, &clock, "static/direct", cx)?;
    flushing(c, m, f, e, ctxt, &clock, "static/flush", cx)?;
    Ok(log1)
}

fn exercise_erased_rt<TF, TE, C>(c: &Case, m: &Model, f: &TF, when: Option<&RecFilter>, e: &TE, ctxt: &C, generic_log: &[Rec], cx: &mut Cx) -> Res
where
    TF: Filter + Send + Sync + 'static,
    TE: Emitter + Send + Sync + 'static,
    C: Ctxt + Send + Sync + 'static,
    C::Frame: Send + 'static,
{
    let ev = EvData::new(&c.evt);
    let clock = K::new(0, c.clock);
    let log = run_erased(c, &ev, f, when, e, ctxt, &clock);
    compare(&log, &m.main, m.accepted, "static/emit-erased-runtime", cx)?;
    vassert!(
        cx,
        log == generic_log,
        "static/erased-runtime-observably-different",
        "generic runtime observed {generic_log:?}\n  erased runtime observed {log:?}"
    );
    Ok(())
}

pub fn check_static(sc: &StaticCase, cx: &mut Cx) -> Res {
    let (filter, dest) = spec_of(sc);
    // ids are assigned by hand (identically in spec_of and below), so no `numbered()`
    let c = Case {
        evt: sc.evt.clone(),
        ambient: sc.ambient.clone(),
        ctxt: sc.ctxt,
        clock: sc.clock,
        filter,
        when: sc.when.as_ref().map(|p| FS::Leaf { id: WHEN, pred: p.clone() }),
        dest,
        entry: sc.entry,
        erased_rt: false,
        macro_a: sc.macro_a,
        macro_b: sc.macro_b,
        by_value: sc.by_value,
        state: sc.state,
    };
    let m = Model::new(&c);
    classify(&c, &m, cx);
    cx.class("static-shape");
    let when_leaf = if c.entry.is_macro() {
        sc.when.as_ref().map(|p| rf(WHEN, p))
    } else {
        None
    };
    let when = when_leaf.as_ref();
    let p = &sc.preds;
    let fz = &sc.flushes;

    match sc.shape % SHAPES {
        0 => {
            let f = rf(L1, &p[0]).and_when(rf(L2, &p[1])).or_when(Some(rf(L3, &p[2])));
            let e = re(M1, fz[0])
                .and_to(Some(re(M2, fz[1])))
                .and_to(None::<RecEmitter>)
                .wrap_emitter(wrapping::from_filter(rf(L4, &p[3])));
            with_ctxt!(c, cx, ctxt => {
                let g = exercise(&c, &m, &f, when, &e, ctxt, cx)?;
                exercise_erased_rt(&c, &m, &f, when, &e, ctxt, &g, cx)
            })
        }
        1 => {
            let f = Box::new(Arc::new(rf(L1, &p[0]).or_when(rf(L2, &p[1])))).and_when(AssertInternal(rf(L3, &p[2])));
            let (k, v) = (key(sc.prepend.0), sc.prepend.1.clone());
            let e = Arc::new(Box::new(re(M1, fz[0])).and_to(AssertInternal(re(M2, fz[1])))).wrap_emitter(wrapping::from_fn(
                move |out: &dyn ErasedEmitter, evt: Event<&dyn ErasedProps>| {
                    out.emit(evt.map_props(|props| (k, &v).and_props(props)));
                },
            ));
            with_ctxt!(c, cx, ctxt => {
                let g = exercise(&c, &m, &f, when, &e, ctxt, cx)?;
                exercise_erased_rt(&c, &m, &f, when, &e, ctxt, &g, cx)
            })
        }
        2 => {
            // borrowed components: generic runtime only (the erased runtime needs 'static)
            let (l1, l2, m1) = (rf(L1, &p[0]), rf(L2, &p[1]), re(M1, fz[0]));
            let f = (&l1).and_when(&l2 as &dyn ErasedFilter);
            let nested = Runtime::new()
                .with_emitter(re(M2, fz[1]).and_to(re(M3, fz[2])))
                .with_filter(rf(L4, &p[3]))
                .with_ctxt(ListCtxt::new(&sc.nested_ctxt))
                .with_clock(K::new(1, sc.nested_clock));
            let e = (&m1).and_to(nested);
            with_ctxt!(c, cx, ctxt => exercise(&c, &m, &f, when, &e, ctxt, cx).map(|_| ()))
        }
        4 => {
            let rt = |e: RecEmitter, f: RecFilter, tag: u32| {
                Runtime::new()
                    .with_emitter(e)
                    .with_filter(f)
                    .with_ctxt(ListCtxt::new(&sc.nested_ctxt))
                    .with_clock(K::new(tag, sc.nested_clock))
            };
            let f = rf(L1, &p[0]).and_when(Audit {
                id: L2,
                pred: p[1].clone(),
                on: audit_on(sc),
                fwd: Tee {
                    rt: rt(re(M3, true), rf(L3, &p[2]), 2),
                    when: None::<RecFilter>,
                    via: sc.vias[0],
                    a: sc.macro_a,
                },
            });
            let e = re(M1, fz[0]).and_to(Tee {
                rt: rt(re(M2, fz[1]), rf(L4, &p[3]), 1),
                when: if fz[2] && sc.vias[1].is_macro() { Some(rf(L5, &p[0])) } else { None },
                via: sc.vias[1],
                a: sc.macro_a,
            });
            with_ctxt!(c, cx, ctxt => {
                let g = exercise(&c, &m, &f, when, &e, ctxt, cx)?;
                exercise_erased_rt(&c, &m, &f, when, &e, ctxt, &g, cx)
            })
        }
        _ => {
            let inner: Box<dyn ErasedFilter + Send + Sync> = Box::new(rf(L1, &p[0]).and_when(rf(L2, &p[1])));
            let p2 = p[2].clone();
            let f = inner.or_when(filter::from_fn(move |evt| {
                let verdict = crate::trees::eval_pred(&p2, &evt);
                log(Rec::FilterSaw { id: L3, snap: snap(&evt), verdict });
                verdict
            }));
            let inner: Box<dyn ErasedEmitter + Send + Sync> = Box::new(re(M1, fz[0]).and_to(re(M2, fz[1])));
            let e = inner.and_to(emitter::from_fn(|evt| {
                log(Rec::Emit { id: M3, snap: snap(&evt) });
            }));
            with_ctxt!(c, cx, ctxt => {
                let g = exercise(&c, &m, &f, when, &e, ctxt, cx)?;
                exercise_erased_rt(&c, &m, &f, when, &e, ctxt, &g, cx)
            })
        }
    }
}
