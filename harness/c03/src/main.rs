// stub: check for C03 not built yet
fn main() {
    eprintln!("C03: check not built yet");
    std::process::exit(2);
}
