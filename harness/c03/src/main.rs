use std::collections::HashMap;

use c03::*;
use vcore::proptest::prelude::*;
use vcore::proptest::strategy::Union;
use vcore::{Cx, Level as VLevel, Res};

const RULE: &str = "a case is a well-nested program tree over {Check(observation form) | Frame{instance A/B/shared, ctxt wrapper (direct, &, Box, Arc, Option Some/None, AssertInternal, dyn ErasedCtxt with 1-word/2-word inline and boxed-by-size/boxed-by-alignment frames, Box<dyn>), kind push/root/disabled/current, created via Frame::* or ctxt.open_*, <=4 props with distinct keys from an 8-key alphabet, how = guard | with | call | in_fn | in_fn on a fresh thread | in_future | enter-twice | manual into_parts/enter/exit/from_parts | manual ... close, body} | Create (frame kept for later) | Enter{stored frame, how, body} (deferred enter, re-entry, frames carried in from elsewhere) | CatchPanic{body} | Panic | Thread{carried frames, body} (fresh OS thread, joined) | Join{tasks with carried frames, poll schedule} (single-thread executor) | Yield}, nesting depth <=6, interpreted against the real emit code and a lexical model in lock-step. Non-trivial = at some point >=2 frames are simultaneously active on one thread AND the run contains at least one of: a frame entered on another thread than the one it was created on; a task holding an in_future frame resumed after another task of the same executor ran; a panic unwinding through >=1 entered frame; a Frame value entered for the second time; a frame entered while a frame of a different context instance is active on the same thread. A second generator (instance-id-races) SAMPLES THE OS SCHEDULER: 2-8 threads released together by a spin barrier create fresh ThreadLocalCtxt::new() instances in 5-100 small rounds of 1-20 with generated spin skews; all instances plus shared() are handed to one fresh thread that enters one root/push frame per instance carrying the instance's own owner number, requires every instance to show exactly its own frame while all are entered, exits in stack order and requires everything to be empty; its cases are non-trivial when >=2 creator threads produced >=3 instances. Which creation interleavings occur is not controlled, the verdict needs no schedule knowledge.";

const ASSUMPTIONS: [&str; 7] = [
    "instance-id-races samples whatever interleavings of concurrent ThreadLocalCtxt::new() calls the OS scheduler produces on this machine (not enumerated, not reproducible from the seed alone; a stored failing workload is re-run 200 times on replay); its oracle (every instance shows exactly its own entered frame) holds for every interleaving, so a reported violation is never schedule-dependent, only its discovery is",
    "the model is lexical: the value of a frame is fixed at creation (push = visible-at-creation overlaid by own props; root = own props; disabled/current = visible-at-creation) and what is visible at a program point is the value of the innermost frame of that instance active at that point of that thread/task; nothing of the implementation (swap, ids, Arc'd maps) is modelled",
    "a disabled frame that is entered somewhere else than where it was created shows what was visible where it was created (rustdoc: 'props could have been pushed, but were filtered out', i.e. a push of nothing); created-and-entered-in-place this coincides with 'adds nothing'",
    "values are compared by their Display text against the Display of the value handed in, plus a typed read (i64/bool/TraceId/SpanId via Value::cast) for values that went in with that type; deeper value fidelity is C19's subject",
    "only stack-ordered programs are generated: a guard is never held across a suspension point and frames exit in reverse order of entry (the statement is restricted to those)",
    "threads are sequentialised (spawned, joined, then the parent continues): state is thread-local so real parallelism adds nothing to the claim; tasks are interleaved on one thread by a hand-rolled executor in the generated order",
    "a frame on Option::<Ctxt>::None shows nothing, changes nothing anywhere, and observation through None is empty",
];

fn val() -> impl Strategy<Value = Val> {
    prop_oneof![
        4 => (-3i64..=3).prop_map(Val::I),
        1 => any::<i64>().prop_map(Val::I),
        1 => any::<bool>().prop_map(Val::B),
        2 => prop::sample::select(vec!["", "x", "y", "é", "0af7651916cd43dd8448eb211c80319c"]).prop_map(|s| Val::S(s.to_string())),
        1 => (-8i32..=8).prop_map(|v| Val::F(v as f64 / 4.0)),
        1 => prop_oneof![(Just(0u64), 1u64..=3), (any::<u64>(), any::<u64>())].prop_map(|(h, l)| Val::T(h, l)),
        1 => prop_oneof![1u64..=3, any::<u64>().prop_map(|v| v | 1)].prop_map(Val::P),
        1 => prop::collection::vec(-2i64..=2, 0..=2).prop_map(Val::L),
        1 => Just(Val::N),
    ]
}

fn wrap() -> impl Strategy<Value = Wrap> {
    prop_oneof![
        6 => Just(Wrap::Direct),
        2 => Just(Wrap::Ref),
        1 => Just(Wrap::Boxed),
        1 => Just(Wrap::Arced),
        1 => Just(Wrap::OptSome),
        1 => Just(Wrap::OptNone),
        1 => Just(Wrap::Internal),
        3 => Just(Wrap::Dyn),
        2 => Just(Wrap::DynEdge),
        3 => Just(Wrap::DynBig),
        2 => Just(Wrap::DynAligned),
        1 => Just(Wrap::BoxDyn),
        1 => Just(Wrap::BoxDynBig),
        1 => Just(Wrap::Pad),
    ]
}

fn spec() -> impl Strategy<Value = Spec> {
    (
        prop_oneof![4 => Just(0u8), 3 => Just(1u8), 3 => Just(2u8)],
        wrap(),
        prop_oneof![6 => Just(Kind::Push), 2 => Just(Kind::Root), 1 => Just(Kind::Disabled), 1 => Just(Kind::Current)],
        prop::bool::weighted(0.2),
        prop::collection::vec((0u8..8, val()), 0..=4),
    )
        .prop_map(|(inst, wrap, kind, via_ctxt, props)| Spec {
            inst,
            wrap,
            kind,
            via_ctxt,
            props,
        })
}

fn obs() -> impl Strategy<Value = Obs> {
    prop_oneof![
        6 => Just(Obs::Direct),
        10 => prop::sample::select(ALL_OBS.to_vec()),
        1 => Just(Obs::All),
    ]
}

fn how_sync() -> impl Strategy<Value = How> {
    prop_oneof![
        5 => Just(How::Guard),
        2 => Just(How::With),
        2 => Just(How::Call),
        2 => Just(How::InFn),
        1 => Just(How::InFnThread),
        1 => Just(How::InFnThreadQuiet),
        2 => Just(How::EnterTwice),
        2 => Just(How::Manual),
        1 => Just(How::ManualClose),
    ]
}

type Memo = HashMap<(u32, bool, bool), BoxedStrategy<Vec<Node>>>;

fn carry() -> impl Strategy<Value = Vec<u32>> {
    prop::collection::vec(any::<u32>(), 0..=2)
}

fn node(depth: u32, can_yield: bool, in_catch: bool, memo: &mut Memo) -> BoxedStrategy<Node> {
    let mut alts: Vec<(u32, BoxedStrategy<Node>)> = vec![
        (8, obs().prop_map(Node::Check).boxed()),
        (6, spec().prop_map(Node::Create).boxed()),
        (
            2,
            (any::<u32>(), prop_oneof![how_sync(), Just(How::InFuture)])
                .prop_map(|(slot, how)| Node::Enter {
                    slot,
                    how,
                    body: vec![],
                })
                .boxed(),
        ),
    ];
    alts.push((2, Just(Node::ParentCheck).boxed()));
    if can_yield {
        alts.push((8, Just(Node::Yield).boxed()));
    }
    if in_catch {
        alts.push((5, Just(Node::Panic).boxed()));
    }
    if depth > 0 {
        let sync_body = body(depth - 1, false, in_catch, memo);
        let fut_body = body(depth - 1, true, in_catch, memo);
        let same_body = body(depth - 1, can_yield, true, memo);
        alts.push((
            8,
            (spec(), how_sync(), sync_body.clone())
                .prop_map(|(spec, how, body)| Node::Frame { spec, how, body })
                .boxed(),
        ));
        alts.push((
            if can_yield { 7 } else { 3 },
            (spec(), fut_body.clone())
                .prop_map(|(spec, body)| Node::Frame {
                    spec,
                    how: How::InFuture,
                    body,
                })
                .boxed(),
        ));
        alts.push((
            3,
            (any::<u32>(), how_sync(), sync_body.clone())
                .prop_map(|(slot, how, body)| Node::Enter { slot, how, body })
                .boxed(),
        ));
        alts.push((
            if can_yield { 2 } else { 1 },
            (any::<u32>(), fut_body.clone())
                .prop_map(|(slot, body)| Node::Enter {
                    slot,
                    how: How::InFuture,
                    body,
                })
                .boxed(),
        ));
        alts.push((2, same_body.clone().prop_map(Node::CatchPanic).boxed()));
        // skeleton: a panic raised inside an entered frame, caught outside of it
        let deeper = depth.saturating_sub(2);
        let in_sync = body(deeper, false, true, memo);
        let in_fut = body(deeper, true, true, memo);
        let panicking_frame = prop_oneof![
            3 => (spec(), how_sync(), in_sync).prop_map(|(spec, how, mut body)| {
                body.push(Node::Panic);
                Node::Frame { spec, how, body }
            }),
            1 => (spec(), in_fut.clone()).prop_map(|(spec, mut body)| {
                body.push(Node::Panic);
                Node::Frame { spec, how: How::InFuture, body }
            }),
        ];
        alts.push((
            2,
            (same_body.clone(), panicking_frame, same_body)
                .prop_map(|(mut pre, f, post)| {
                    pre.truncate(1);
                    pre.push(f);
                    pre.extend(post.into_iter().take(1));
                    Node::CatchPanic(pre)
                })
                .boxed(),
        ));
        alts.push((
            2,
            (carry(), sync_body.clone(), any::<bool>())
                .prop_map(|(carry, body, quiet)| Node::Thread { carry, body, quiet })
                .boxed(),
        ));
        // tasks: mostly "a frame-wrapped future that suspends at least once", sometimes anything
        let in_fut_plain = body(deeper, true, in_catch, memo);
        let suspending = (spec(), in_fut_plain.clone(), in_fut_plain.clone(), fut_body.clone()).prop_map(|(spec, mut a, b, mut pre)| {
            a.push(Node::Yield);
            a.extend(b);
            pre.truncate(1);
            pre.push(Node::Frame {
                spec,
                how: How::InFuture,
                body: a,
            });
            pre
        });
        let task = (carry(), prop_oneof![3 => suspending, 2 => fut_body])
            .prop_map(|(carry, body)| Task { carry, body })
            .boxed();
        alts.push((
            3,
            (
                prop_oneof![1 => prop::collection::vec(task.clone(), 1..=1), 5 => prop::collection::vec(task.clone(), 2..=2), 2 => prop::collection::vec(task, 3..=4)],
                prop::collection::vec((any::<u32>(), prop_oneof![6 => Just(0u8), 1 => Just(1u8), 1 => Just(2u8)]), 0..=12),
            )
                .prop_map(|(tasks, schedule)| Node::Join { tasks, schedule })
                .boxed(),
        ));
    }
    Union::new_weighted(alts).boxed()
}

fn body(depth: u32, can_yield: bool, in_catch: bool, memo: &mut Memo) -> BoxedStrategy<Vec<Node>> {
    if let Some(s) = memo.get(&(depth, can_yield, in_catch)) {
        return s.clone();
    }
    let n = node(depth, can_yield, in_catch, memo);
    let s = prop::collection::vec(n, if depth >= 3 { 0..=3 } else { 0..=2 }).boxed();
    memo.insert((depth, can_yield, in_catch), s.clone());
    s
}

fn origin() -> impl Strategy<Value = Origin> {
    prop_oneof![
        3 => Just(Origin::New),
        2 => Just(Origin::DefaultCall),
        1 => Just(Origin::DefaultGeneric),
        1 => Just(Origin::DefaultAlias),
        3 => Just(Origin::Shared),
        1 => Just(Origin::SetupNewRuntime),
        1 => Just(Origin::SetupFnRuntime),
        1 => Just(Origin::SetupSlot),
    ]
}

fn origins() -> impl Strategy<Value = [Origin; 3]> {
    prop_oneof![
        // the original arrangement first (shrinks towards it)
        1 => Just(default_origins()),
        5 => [origin(), origin(), origin()],
    ]
}

/// Complete small scope over the ways of obtaining instances: every ordered triple of origins x
/// (kind of the outer frame on slot 0) x (kind of the inner frame on slot 1), with a frame of slot 2
/// created up front and entered innermost; every check looks at all three slots and at `shared()`.
fn origin_triples() -> impl Iterator<Item = Case> + Send {
    let kinds = [Kind::Push, Kind::Root, Kind::Current];
    let mut out = Vec::new();
    for o0 in ALL_ORIGINS {
        for o1 in ALL_ORIGINS {
            for o2 in ALL_ORIGINS {
                for k0 in kinds {
                    for k1 in kinds {
                        let spec = |inst: u8, kind: Kind, wrap: Wrap, key: u8, v: i64| Spec {
                            inst,
                            wrap,
                            kind,
                            via_ctxt: false,
                            props: vec![(key, Val::I(v)), (3, Val::I(v + 10))],
                        };
                        let wraps = [Wrap::Direct, Wrap::Dyn, Wrap::Internal, Wrap::Ref, Wrap::Arced];
                        let w = |i: usize| wraps[(out.len() + i) % wraps.len()];
                        out.push(Case {
                            origins: [o0, o1, o2],
                            quiet_start: out.len() % 2 == 1,
                            prog: vec![
                                Node::Create(spec(2, Kind::Push, w(2), 2, 3)),
                                Node::Frame {
                                    spec: spec(0, k0, w(0), 0, 1),
                                    how: How::Guard,
                                    body: vec![
                                        Node::Check(Obs::Dyn),
                                        Node::Frame {
                                            spec: spec(1, k1, w(1), 1, 2),
                                            how: How::Call,
                                            body: vec![
                                                Node::Check(Obs::All),
                                                Node::Enter {
                                                    slot: 0,
                                                    how: How::With,
                                                    body: vec![Node::Check(Obs::Event)],
                                                },
                                            ],
                                        },
                                        Node::Check(Obs::Direct),
                                    ],
                                },
                                Node::Check(Obs::All),
                            ],
                        });
                    }
                }
            }
        }
    }
    out.into_iter()
}

fn how_any() -> impl Strategy<Value = How> {
    prop_oneof![6 => how_sync(), 2 => Just(How::InFuture)]
}

fn program() -> BoxedStrategy<Case> {
    let mut memo = Memo::new();
    let n = node(5, false, false, &mut memo);
    let generic = prop::collection::vec(n.clone(), 1..=6);
    // skeleton: frames created here are carried to a fresh thread whose FIRST context operation
    // is entering one of them (no observation before); afterwards that thread is checked, then
    // uses a second carried frame or a frame of its own
    let small = body(1, false, false, &mut memo);
    let yielding = body(1, true, false, &mut memo);
    let first_enter = (any::<u32>(), how_any(), small.clone(), yielding.clone()).prop_map(|(slot, how, b, y)| Node::Enter {
        slot,
        how,
        body: if how == How::InFuture { y } else { b },
    });
    let second = prop_oneof![
        (any::<u32>(), how_any(), small.clone(), yielding).prop_map(|(slot, how, b, y)| Node::Enter {
            slot,
            how,
            body: if how == How::InFuture { y } else { b },
        }),
        (spec(), how_sync(), small).prop_map(|(spec, how, body)| Node::Frame { spec, how, body }),
    ];
    let skeleton = (
        prop::collection::vec(n.clone(), 0..=2),
        prop::collection::vec(spec(), 1..=3),
        first_enter,
        second,
        prop::collection::vec(n, 0..=2),
    )
        .prop_map(|(mut pre, specs, first, second, post)| {
            let carried = specs.len();
            pre.extend(specs.into_iter().map(Node::Create));
            pre.push(Node::Thread {
                // the most recently created frames are at the end of the store
                carry: vec![u32::MAX; carried],
                quiet: true,
                body: vec![first, Node::Check(Obs::Direct), second, Node::Check(Obs::All)],
            });
            pre.extend(post);
            pre
        });
    (origins(), prop::bool::weighted(0.3), prop_oneof![5 => generic, 1 => skeleton])
        .prop_map(|(origins, quiet_start, prog)| Case {
            origins,
            quiet_start,
            prog,
        })
        .boxed()
}

const KINDS: [Kind; 4] = [Kind::Push, Kind::Root, Kind::Disabled, Kind::Current];
const HOWS: [How; 11] = [
    How::Guard,
    How::With,
    How::Call,
    How::InFn,
    How::InFnThread,
    How::InFuture,
    How::EnterTwice,
    How::Manual,
    How::ManualClose,
    How::InFnThreadQuiet,
    How::Guard,
];

/// Complete small scope: every (kind, how, storage) x (kind, how, storage, same/other instance) pair of
/// nested frames with overlapping keys, plus one frame created up front and entered innermost.
fn nested_pairs() -> impl Iterator<Item = Case> + Send {
    let wraps = [Wrap::Direct, Wrap::DynBig];
    let mut out = Vec::new();
    for k1 in KINDS {
        for h1 in &HOWS[..10] {
            for w1 in wraps {
                for k2 in KINDS {
                    for h2 in &HOWS[..10] {
                        for w2 in wraps {
                            for inst2 in [0u8, 1] {
                                let deferred = Spec {
                                    inst: 0,
                                    wrap: Wrap::Dyn,
                                    kind: Kind::Push,
                                    via_ctxt: false,
                                    props: vec![(1, Val::I(7))],
                                };
                                let outer = Spec {
                                    inst: 0,
                                    wrap: w1,
                                    kind: k1,
                                    via_ctxt: false,
                                    props: vec![(0, Val::I(1)), (1, Val::I(2))],
                                };
                                let inner = Spec {
                                    inst: inst2,
                                    wrap: w2,
                                    kind: k2,
                                    via_ctxt: true,
                                    props: vec![(0, Val::I(3)), (2, Val::S("x".into()))],
                                };
                                out.push(Case {
                                    origins: default_origins(),
                                    quiet_start: (out.len() % 2) == 1,
                                    prog: vec![
                                        Node::Create(deferred),
                                        Node::Frame {
                                            spec: outer,
                                            how: *h1,
                                            body: vec![
                                                Node::Check(Obs::Direct),
                                                Node::Frame {
                                                    spec: inner,
                                                    how: *h2,
                                                    body: vec![
                                                        Node::Check(Obs::All),
                                                        Node::Yield,
                                                        Node::Enter {
                                                            slot: 0,
                                                            how: How::Guard,
                                                            body: vec![Node::Check(Obs::Dyn)],
                                                        },
                                                        Node::Check(Obs::Direct),
                                                    ],
                                                },
                                                Node::Yield,
                                                Node::Check(Obs::Event),
                                            ],
                                        },
                                        Node::Check(Obs::All),
                                    ],
                                });
                            }
                        }
                    }
                }
            }
        }
    }
    out.into_iter()
}

fn race_case() -> impl Strategy<Value = race::RaceCase> {
    (
        2u8..=8,
        5u16..=100,
        1u16..=20,
        prop::collection::vec(prop_oneof![3 => Just(0u16), 2 => 0u16..50, 1 => 0u16..2000], 1..=8),
        any::<u32>(),
        any::<u64>(),
    )
        .prop_map(|(threads, rounds, per_round, skews, shared_at, kinds)| race::RaceCase {
            threads,
            rounds,
            per_round,
            skews,
            shared_at,
            kinds,
        })
}

fn count(nodes: &[Node]) -> usize {
    nodes
        .iter()
        .map(|n| {
            1 + match n {
                Node::Frame { body, .. } | Node::Enter { body, .. } | Node::CatchPanic(body) | Node::Thread { body, .. } => count(body),
                Node::Join { tasks, .. } => tasks.iter().map(|t| count(&t.body)).sum(),
                _ => 0,
            }
        })
        .sum()
}

fn check(case: &Case, cx: &mut Cx) -> Res {
    match run_case(case) {
        Ok(stats) => {
            for l in &stats.labels {
                cx.class(l);
            }
            let has = |l: &str| stats.labels.contains(l);
            let deep = stats.max_depth >= 2;
            cx.class_if(deep, "depth>=2");
            cx.class_if(stats.max_depth >= 4, "depth>=4");
            let hop = has("hop:thread-carried-frame") || has("hop:suspended-future-resumed-on-other-thread");
            let any = hop || has("tasks:interleaved") || has("panic:through-frame") || has("reentry") || has("second-instance");
            // the five required classes are counted only where the case is also deep
            if deep {
                cx.class_if(hop, "nt:thread-hop");
                cx.class_if(has("tasks:interleaved"), "nt:interleaved-tasks");
                cx.class_if(has("panic:through-frame"), "nt:panic-through-frame");
                cx.class_if(has("reentry"), "nt:reentry");
                cx.class_if(has("second-instance"), "nt:second-instance");
            }
            cx.nontrivial(deep && any);
            let n = count(&case.prog);
            cx.class(match n {
                0..=5 => "stmts:1-5",
                6..=15 => "stmts:6-15",
                16..=40 => "stmts:16-40",
                _ => "stmts:>40",
            });
            Ok(())
        }
        Err(f) => cx.fail(f.sig, f.msg),
    }
}

fn main() {
    vcore::run("C03", VLevel::Exploration, RULE, &ASSUMPTIONS, |s| {
        // required: each >= 5 % of the quick tier's cases in practice; the minimum is set >= 10x lower
        let q = s.n(60_000, 60_000);
        for c in [
            "depth>=2",
            "nt:thread-hop",
            "nt:interleaved-tasks",
            "nt:panic-through-frame",
            "nt:reentry",
            "nt:second-instance",
        ] {
            s.require(c, q / 200);
        }
        for c in [
            "wrap:dyn-inline",
            "wrap:dyn-inline-at-limit",
            "wrap:dyn-boxed-by-size",
            "wrap:dyn-boxed-by-align",
            "how:in_future",
            "how:manual",
            "yield:suspends-frame",
            "deferred:entered-where-something-else-is-visible",
            "kind:root",
            "kind:disabled",
            "kind:current",
            "fresh-thread-first-op-is-enter",
            "fresh-thread-first-op-is-enter:carried-frame",
            "instance-kind:new",
            "instance-kind:default",
            "instance-kind:shared",
            "instance-kind:setup-default-ctxt",
            "pair:default+default",
            "pair:default+shared",
            "pair:setup+setup",
            "pair:default+setup",
            "pair:setup+shared",
            "pair:default+new",
            "both-active:default+default",
            "both-active:default+shared",
            "both-active:setup+setup",
        ] {
            s.require(c, q / 400);
        }
        s.require("race:case", 20);
        s.require("race:threads>=4", 10);
        // OS-schedule sampling, run one workload at a time so that the creator threads really run in parallel
        let races = s.sample("instance-id-races", race_case(), s.n(250, 6_000) as usize);
        s.manual("instance-id-races", races, race::check);
        s.enumerate("nested-pairs-exhaustive", nested_pairs(), check);
        s.enumerate("origin-triples-exhaustive", origin_triples(), check);
        s.gen("programs", s.n(60_000, 2_000_000), program, check);
    })
}
