//! C03 — ambient context is a per-thread stack; frames leave no trace once exited.
//!
//! A case is a *program tree* (data). `run_case` interprets it against the real `emit::Frame` /
//! `ThreadLocalCtxt` / `dyn ErasedCtxt` code and, in lock-step, against a model that is derived from
//! the property text only:
//!
//! * every frame has a VALUE fixed when it is created: push = what was visible for its context
//!   instance at the creation point overlaid by its own properties; root = its own properties;
//!   disabled / current = what was visible at the creation point;
//! * at any program point the visible properties of an instance on the running thread are the value
//!   of the innermost frame of that instance that is active *at that point of that thread / task*,
//!   or nothing. Because programs are well nested this is a purely lexical notion: the interpreter
//!   passes the expected visible maps (`Env`) down the tree by value and never mutates them, so
//!   "leaving a frame restores exactly what was visible before" is simply "the caller's `Env` is
//!   still the truth after the callee returned / unwound / was suspended".
//!
//! Nothing of the implementation (swap on enter/exit, Arc'd hash maps, ids) is used by the model.

pub mod ctxts;
pub mod race;

use std::any::Any;
use std::collections::{BTreeMap, BTreeSet};
use std::future::Future;
use std::ops::ControlFlow;
use std::panic::{catch_unwind, resume_unwind, AssertUnwindSafe};
use std::pin::Pin;
use std::sync::atomic::{AtomicU32, Ordering};
use std::sync::{Arc, Mutex};
use std::task::{Context, Poll, Waker};

use emit::ctxt::ErasedCtxt;
use emit::platform::thread_local_ctxt::ThreadLocalCtxt;
use emit::runtime::AssertInternal;
use emit::{Ctxt, Empty, Frame, Props, SpanId, Str, TraceId, Value};
use serde::{Deserialize, Serialize};
use vcore::{pick, Fail, Res};

use ctxts::{Aligned, Pad};

// ---------------------------------------------------------------------------------------------
// The case: a program tree

pub const KEYS: [&str; 8] = ["a", "b", "c", "d", "", "é", "trace_id", "span_id"];

#[derive(Serialize, Deserialize, Debug, Clone, PartialEq)]
pub enum Val {
    I(i64),
    B(bool),
    S(String),
    F(f64),
    /// a `TraceId` as (high, low) 64-bit halves (serde_json values cannot hold a u128); 0 is mapped to 1
    T(u64, u64),
    /// a `SpanId` (non-zero; 0 is mapped to 1)
    P(u64),
    /// a structured value captured through serde
    L(Vec<i64>),
    /// the null value (`None::<T>` / `Value::null()`): a property all the same -- it is visible and it shadows
    N,
}

#[derive(Serialize, Deserialize, Debug, Clone, Copy, PartialEq, Eq)]
pub enum Kind {
    Push,
    Root,
    Disabled,
    Current,
}

/// The concrete `Ctxt` type the frame is built on (all of them end in the same real
/// `ThreadLocalCtxt` instance).
#[derive(Serialize, Deserialize, Debug, Clone, Copy, PartialEq, Eq)]
pub enum Wrap {
    Direct,
    Ref,
    Boxed,
    Arced,
    OptSome,
    /// `Option::<ThreadLocalCtxt>::None`: a frame on no context at all (must not affect anything)
    OptNone,
    Internal,
    /// `&(dyn ErasedCtxt + Send + Sync)` over `ThreadLocalCtxt` (1-word frame, inline)
    Dyn,
    /// … over `Pad<1>` (2-word frame: inline, exactly at the limit)
    DynEdge,
    /// … over `Pad<3>` (4-word frame: boxed)
    DynBig,
    /// … over `Aligned` (2 words, 16-aligned: boxed because of alignment)
    DynAligned,
    /// `Box<dyn ErasedCtxt + Send + Sync>` over `ThreadLocalCtxt`
    BoxDyn,
    /// `Box<dyn ErasedCtxt + Send + Sync>` over `Pad<3>`
    BoxDynBig,
    /// `Pad<3>` used generically (control for the wrapper itself)
    Pad,
}

#[derive(Serialize, Deserialize, Debug, Clone, Copy, PartialEq, Eq)]
pub enum How {
    /// `let g = frame.enter(); body; drop(g)`
    Guard,
    /// `frame.with(|current| body)`
    With,
    /// `frame.call(|| body)`
    Call,
    /// `let f = frame.in_fn(|| body); f()`
    InFn,
    /// `let f = frame.in_fn(|| body); spawn(f).join()` on a fresh OS thread
    InFnThread,
    /// the same, but the new thread does NOT look at any context before calling the function: the
    /// very first context operation of that thread is the enter of the carried frame
    InFnThreadQuiet,
    /// `frame.in_future(async { body })`, awaited (inside a task) or driven by a nested executor
    InFuture,
    /// guard, body, drop; then the same `Frame` value is entered a second time
    EnterTwice,
    /// `into_parts`, `ctxt.enter`, body, `ctxt.exit`, `from_parts`
    Manual,
    /// `into_parts`, `ctxt.enter`, body, `ctxt.exit`, `ctxt.close`
    ManualClose,
}

#[derive(Serialize, Deserialize, Debug, Clone, PartialEq)]
pub struct Spec {
    /// 0 = instance A, 1 = instance B, 2 = `ThreadLocalCtxt::shared()`
    pub inst: u8,
    pub wrap: Wrap,
    pub kind: Kind,
    /// create through `ctxt.open_*` + `Frame::from_parts` instead of `Frame::push/root/…`
    pub via_ctxt: bool,
    /// (index into KEYS, value); a key that repeats is dropped (distinct keys within a frame)
    pub props: Vec<(u8, Val)>,
}

/// How a `Check` node looks at the context.
#[derive(Serialize, Deserialize, Debug, Clone, Copy, PartialEq, Eq)]
pub enum Obs {
    Direct,
    Ref,
    Boxed,
    Arced,
    OptSome,
    OptNone,
    Internal,
    Dyn,
    /// `&dyn ErasedCtxt` (without `Send + Sync`)
    DynPlain,
    DynEdge,
    DynBig,
    DynAligned,
    BoxDyn,
    Pad,
    /// the ambient properties attached to an event emitted through `emit_core::emit`
    Event,
    /// `Frame::current(&ctxt).with(|current| …)` as the repository's own tests do
    CurrentFrame,
    All,
}

pub const ALL_OBS: [Obs; 16] = [
    Obs::Direct,
    Obs::Ref,
    Obs::Boxed,
    Obs::Arced,
    Obs::OptSome,
    Obs::OptNone,
    Obs::Internal,
    Obs::Dyn,
    Obs::DynPlain,
    Obs::DynEdge,
    Obs::DynBig,
    Obs::DynAligned,
    Obs::BoxDyn,
    Obs::Pad,
    Obs::Event,
    Obs::CurrentFrame,
];

#[derive(Serialize, Deserialize, Debug, Clone, PartialEq)]
pub struct Task {
    /// frames taken out of the parent's store and moved into the task
    pub carry: Vec<u32>,
    pub body: Vec<Node>,
}

#[derive(Serialize, Deserialize, Debug, Clone, PartialEq)]
pub enum Node {
    Check(Obs),
    /// create a frame here and enter it here
    Frame { spec: Spec, how: How, body: Vec<Node> },
    /// create a frame here and keep it (not entered) in the store of the running thread / task
    Create(Spec),
    /// enter a frame of the store (created earlier, possibly elsewhere, possibly entered before)
    Enter { slot: u32, how: How, body: Vec<Node> },
    /// `catch_unwind` around the body
    CatchPanic(Vec<Node>),
    /// unwind to the innermost `CatchPanic` (no-op outside of one)
    Panic,
    /// run the body on a fresh OS thread (joined before continuing), moving `carry` frames there
    /// `quiet`: the new thread does not observe anything before running the body (so the body's
    /// first node can be the thread's very first context operation, e.g. entering a carried frame)
    Thread {
        carry: Vec<u32>,
        body: Vec<Node>,
        #[serde(default)]
        quiet: bool,
    },
    /// run the tasks on a single-thread executor polling in `schedule` order: (which of the
    /// unfinished tasks, where: 0 = on the executor's thread, 1 = on a fresh helper thread that first
    /// checks it sees nothing, 2 = on a fresh helper thread whose first context operation is the poll). The
    /// helper-thread form is only used where nothing is visible on the executor's thread, so that a
    /// task sees the same surroundings wherever it is polled (a work-stealing runtime moving a
    /// suspended future between workers).
    Join { tasks: Vec<Task>, schedule: Vec<(u32, u8)> },
    /// on a spawned thread: hand control to the (blocked) parent thread, which checks that what IT
    /// sees is untouched by whatever this thread has active right now; a plain check on the main thread
    ParentCheck,
    /// inside a task / `in_future` body: return `Pending` once (no-op elsewhere)
    Yield,
}

/// The way a context instance is obtained.
#[derive(Serialize, Deserialize, Debug, Clone, Copy, PartialEq, Eq)]
pub enum Origin {
    /// `ThreadLocalCtxt::new()`
    New,
    /// `ThreadLocalCtxt::default()`
    DefaultCall,
    /// `<T as Default>::default()` through a generic helper
    DefaultGeneric,
    /// `emit::setup::DefaultCtxt::default()` (the alias `Setup` uses)
    DefaultAlias,
    /// `ThreadLocalCtxt::shared()`: by documentation the SAME storage as any other `shared()`
    Shared,
    /// `*emit::Setup::new().init_runtime().ctxt()`
    SetupNewRuntime,
    /// `*emit::setup().init_runtime().ctxt()`
    SetupFnRuntime,
    /// `emit::Setup::new().init_slot(&local AmbientSlot)`: `*init.ctxt()`, erased forms go through
    /// `slot.get().ctxt()`
    SetupSlot,
}

pub const ALL_ORIGINS: [Origin; 8] = [
    Origin::New,
    Origin::DefaultCall,
    Origin::DefaultGeneric,
    Origin::DefaultAlias,
    Origin::Shared,
    Origin::SetupNewRuntime,
    Origin::SetupFnRuntime,
    Origin::SetupSlot,
];

impl Origin {
    /// 0 = new, 1 = default, 2 = shared, 3 = setup
    fn class(self) -> usize {
        match self {
            Origin::New => 0,
            Origin::DefaultCall | Origin::DefaultGeneric | Origin::DefaultAlias => 1,
            Origin::Shared => 2,
            Origin::SetupNewRuntime | Origin::SetupFnRuntime | Origin::SetupSlot => 3,
        }
    }

    fn name(self) -> &'static str {
        match self {
            Origin::New => "ThreadLocalCtxt::new()",
            Origin::DefaultCall => "ThreadLocalCtxt::default()",
            Origin::DefaultGeneric => "<T as Default>::default()",
            Origin::DefaultAlias => "DefaultCtxt::default()",
            Origin::Shared => "ThreadLocalCtxt::shared()",
            Origin::SetupNewRuntime => "Setup::new().init_runtime().ctxt()",
            Origin::SetupFnRuntime => "emit::setup().init_runtime().ctxt()",
            Origin::SetupSlot => "Setup::new().init_slot(&slot).ctxt()",
        }
    }
}

pub fn default_origins() -> [Origin; 3] {
    [Origin::New, Origin::New, Origin::Shared]
}

const KIND_LABEL: [&str; 4] = [
    "instance-kind:new",
    "instance-kind:default",
    "instance-kind:shared",
    "instance-kind:setup-default-ctxt",
];

/// `[class of the instance with the entered frame][class of the other, distinct instance]`
const PAIR_LABEL: [[&str; 4]; 4] = [
    ["pair:new+new", "pair:default+new", "pair:new+shared", "pair:new+setup"],
    ["pair:default+new", "pair:default+default", "pair:default+shared", "pair:default+setup"],
    ["pair:new+shared", "pair:default+shared", "pair:shared+shared(unreachable)", "pair:setup+shared"],
    ["pair:new+setup", "pair:default+setup", "pair:setup+shared", "pair:setup+setup"],
];

const PAIR_ACTIVE_LABEL: [[&str; 4]; 4] = [
    ["both-active:new+new", "both-active:default+new", "both-active:new+shared", "both-active:new+setup"],
    ["both-active:default+new", "both-active:default+default", "both-active:default+shared", "both-active:default+setup"],
    ["both-active:new+shared", "both-active:default+shared", "both-active:shared+shared(unreachable)", "both-active:setup+shared"],
    ["both-active:new+setup", "both-active:default+setup", "both-active:setup+shared", "both-active:setup+setup"],
];

fn generic_default<T: Default>() -> T {
    T::default()
}

#[derive(Serialize, Deserialize, Debug, Clone, PartialEq)]
pub struct Case {
    /// how each of the three instance slots is obtained (two `Shared` slots are ONE instance)
    #[serde(default = "default_origins")]
    pub origins: [Origin; 3],
    /// skip the observation at program start, so that the first node is the first operation on
    /// this case's fresh instances
    #[serde(default)]
    pub quiet_start: bool,
    pub prog: Vec<Node>,
}

// ---------------------------------------------------------------------------------------------
// The model

#[derive(Clone, Debug, PartialEq)]
pub struct MVal {
    /// `Display` of the value that was handed to the frame
    pub text: String,
    pub val: Val,
}

pub type Map = BTreeMap<String, MVal>;

/// What is visible for each of the three instances at a program point of the running thread.
#[derive(Clone)]
pub struct Env(pub [Arc<Map>; 3]);

impl Env {
    pub fn empty() -> Env {
        let e = Arc::new(Map::new());
        Env([e.clone(), e.clone(), e])
    }

    fn with(&self, inst: usize, m: Arc<Map>) -> Env {
        let mut e = self.clone();
        e.0[inst] = m;
        e
    }
}

fn trace_u128(h: u64, l: u64) -> u128 {
    (((h as u128) << 64) | l as u128).max(1)
}

/// A value in a form `emit` can borrow.
pub enum Held {
    I(i64),
    B(bool),
    S(String),
    F(f64),
    T(TraceId),
    P(SpanId),
    L(Vec<i64>),
    N,
}

impl Held {
    pub fn new(v: &Val) -> Held {
        match v {
            Val::I(v) => Held::I(*v),
            Val::B(v) => Held::B(*v),
            Val::S(v) => Held::S(v.clone()),
            Val::F(v) => Held::F(if v.is_finite() { *v } else { 0.0 }),
            Val::T(h, l) => Held::T(TraceId::from_u128(trace_u128(*h, *l)).unwrap()),
            Val::P(v) => Held::P(SpanId::from_u64(*v).unwrap_or_else(|| SpanId::from_u64(1).unwrap())),
            Val::L(v) => Held::L(v.clone()),
            Val::N => Held::N,
        }
    }

    pub fn value(&self) -> Value<'_> {
        match self {
            Held::I(v) => Value::from_any(v),
            Held::B(v) => Value::from_any(v),
            Held::S(v) => Value::from_any(v),
            Held::F(v) => Value::from_any(v),
            Held::T(v) => Value::from_any(v),
            Held::P(v) => Value::from_any(v),
            Held::L(v) => Value::capture_serde(v),
            Held::N => Value::null(),
        }
    }
}

/// The own properties of one frame, keys distinct.
pub struct HeldProps(pub Vec<(&'static str, Held, Val)>);

impl HeldProps {
    pub fn new(props: &[(u8, Val)]) -> HeldProps {
        let mut out: Vec<(&'static str, Held, Val)> = Vec::new();
        for (k, v) in props {
            let key = KEYS[*k as usize % KEYS.len()];
            if out.iter().all(|(k2, _, _)| *k2 != key) {
                out.push((key, Held::new(v), v.clone()));
            }
        }
        HeldProps(out)
    }

    fn model(&self) -> Map {
        self.0
            .iter()
            .map(|(k, h, v)| {
                (
                    k.to_string(),
                    MVal {
                        text: h.value().to_string(),
                        val: v.clone(),
                    },
                )
            })
            .collect()
    }
}

impl Props for HeldProps {
    fn for_each<'kv, F: FnMut(Str<'kv>, Value<'kv>) -> ControlFlow<()>>(&'kv self, mut f: F) -> ControlFlow<()> {
        for (k, h, _) in &self.0 {
            f(Str::new(*k), h.value())?;
        }
        ControlFlow::Continue(())
    }
}

// ---------------------------------------------------------------------------------------------
// Per-case constants and statistics

type DynCtxt = dyn ErasedCtxt + Send + Sync;

#[derive(Default, Debug, Clone)]
pub struct Stats {
    pub labels: BTreeSet<&'static str>,
    pub max_depth: u32,
    pub checks: u32,
    pub frames_entered: u32,
    pub polls: u32,
}

pub struct K {
    origins: [Origin; 3],
    /// slot -> index of the model instance it denotes (`shared()` slots all denote the first of them)
    canon: [usize; 3],
    who: [String; 3],
    /// the local ambient slots of `SetupSlot` origins
    slots: [Option<emit::runtime::AmbientSlot>; 3],
    base: [ThreadLocalCtxt; 3],
    dyn_plain: [Box<DynCtxt>; 3],
    dyn_edge: [Box<DynCtxt>; 3],
    dyn_big: [Box<DynCtxt>; 3],
    dyn_aligned: [Box<DynCtxt>; 3],
    stats: Mutex<Stats>,
    next_thread: AtomicU32,
    next_task: AtomicU32,
    last_yield_depth: AtomicU32,
}

impl K {
    fn new(origins: [Origin; 3]) -> K {
        let mut slots: [Option<emit::runtime::AmbientSlot>; 3] = [None, None, None];
        let mut base = [ThreadLocalCtxt::shared(); 3];
        for i in 0..3 {
            base[i] = match origins[i] {
                Origin::New => ThreadLocalCtxt::new(),
                Origin::DefaultCall => ThreadLocalCtxt::default(),
                Origin::DefaultGeneric => generic_default::<ThreadLocalCtxt>(),
                Origin::DefaultAlias => <emit::setup::DefaultCtxt as Default>::default(),
                Origin::Shared => ThreadLocalCtxt::shared(),
                Origin::SetupNewRuntime => *emit::Setup::new().init_runtime().ctxt(),
                Origin::SetupFnRuntime => *emit::setup().init_runtime().ctxt(),
                Origin::SetupSlot => {
                    // a LOCAL slot: the process-global ambient slots are never touched
                    let slot = emit::runtime::AmbientSlot::new();
                    let c = {
                        let init = emit::Setup::new().init_slot(&slot);
                        *init.ctxt()
                    };
                    slots[i] = Some(slot);
                    c
                }
            };
        }
        let mut canon = [0, 1, 2];
        for i in 0..3 {
            if origins[i] == Origin::Shared {
                canon[i] = (0..3).find(|j| origins[*j] == Origin::Shared).unwrap();
            }
        }
        let who = [0, 1, 2].map(|i| format!("slot {i} = {}", origins[i].name()));
        K {
            origins,
            canon,
            who,
            slots,
            base,
            dyn_plain: base.map(|c| Box::new(c) as Box<DynCtxt>),
            dyn_edge: base.map(|c| Box::new(Pad::<1>(c)) as Box<DynCtxt>),
            dyn_big: base.map(|c| Box::new(Pad::<3>(c)) as Box<DynCtxt>),
            dyn_aligned: base.map(|c| Box::new(Aligned(c)) as Box<DynCtxt>),
            stats: Mutex::new(Stats::default()),
            next_thread: AtomicU32::new(1),
            next_task: AtomicU32::new(1),
            last_yield_depth: AtomicU32::new(0),
        }
    }

    /// The instance of a slot as `&(dyn ErasedCtxt + Send + Sync)`: for a `SetupSlot` origin this
    /// is the erased context the ambient slot itself hands out.
    fn erased(&self, raw: usize) -> &DynCtxt {
        match &self.slots[raw] {
            Some(slot) => *slot.get().ctxt(),
            None => &*self.dyn_plain[raw],
        }
    }

    fn label(&self, l: &'static str) {
        self.stats.lock().unwrap().labels.insert(l);
    }

    fn stat(&self, f: impl FnOnce(&mut Stats)) {
        f(&mut self.stats.lock().unwrap())
    }
}

/// Position-dependent bookkeeping (never influences the expected values, only the class labels
/// and which constructs are legal at this point).
#[derive(Clone, Copy)]
pub struct Fl {
    /// a `Yield` may suspend here: we are in a task / `in_future` body and no sync frame of this
    /// task is in between (a guard held across a suspension would exit out of stack order)
    can_yield: bool,
    in_catch: bool,
    thread: u32,
    task: u32,
    /// frames simultaneously active on the running thread at this point
    depth: u32,
    /// bit per instance that has an active frame on the running thread
    active: u8,
    /// frames entered since the innermost `CatchPanic`
    since_catch: u32,
    /// `in_future` frames of the current task that a `Yield` here suspends
    fut_depth: u32,
}

impl Fl {
    fn root() -> Fl {
        Fl {
            can_yield: false,
            in_catch: false,
            thread: 0,
            task: 0,
            depth: 0,
            active: 0,
            since_catch: 0,
            fut_depth: 0,
        }
    }
}

// ---------------------------------------------------------------------------------------------
// Stored frames (real frame + its model value travel together)

pub enum AnyFrame<'c> {
    Direct(Frame<ThreadLocalCtxt>),
    Ref(Frame<&'c ThreadLocalCtxt>),
    Boxed(Frame<Box<ThreadLocalCtxt>>),
    Arced(Frame<Arc<ThreadLocalCtxt>>),
    Opt(Frame<Option<ThreadLocalCtxt>>),
    Internal(Frame<AssertInternal<ThreadLocalCtxt>>),
    Dyn(Frame<&'c DynCtxt>),
    BoxDyn(Frame<Box<DynCtxt>>),
    Pad(Frame<Pad<3>>),
}

pub struct Stored<'c> {
    frame: AnyFrame<'c>,
    /// the slot whose handle the frame was built on
    raw: usize,
    /// the model instance (== `raw` unless the slot is a second `shared()`)
    inst: usize,
    /// the frame's value; `None` for a frame on `Option::None` (no context, no effect)
    value: Option<Arc<Map>>,
    /// what was visible for `inst` where the frame was created
    seen: Arc<Map>,
    born_thread: u32,
    born_task: u32,
    entered: u32,
}

pub type Store<'c> = Vec<Stored<'c>>;

fn mk<C: Ctxt>(ctxt: C, kind: Kind, via_ctxt: bool, props: &HeldProps) -> Frame<C> {
    if via_ctxt {
        let inner = match kind {
            Kind::Push => ctxt.open_push(props),
            Kind::Root => ctxt.open_root(props),
            Kind::Disabled => ctxt.open_disabled(props),
            Kind::Current => ctxt.open_push(Empty),
        };
        Frame::from_parts(ctxt, inner)
    } else {
        match kind {
            Kind::Push => Frame::push(ctxt, props),
            Kind::Root => Frame::root(ctxt, props),
            Kind::Disabled => Frame::disabled(ctxt, props),
            Kind::Current => Frame::current(ctxt),
        }
    }
}

fn wrap_label(w: Wrap) -> &'static str {
    match w {
        Wrap::Direct => "wrap:direct",
        Wrap::Ref => "wrap:ref",
        Wrap::Boxed => "wrap:box",
        Wrap::Arced => "wrap:arc",
        Wrap::OptSome => "wrap:option-some",
        Wrap::OptNone => "wrap:option-none",
        Wrap::Internal => "wrap:assert-internal",
        Wrap::Dyn => "wrap:dyn-inline",
        Wrap::DynEdge => "wrap:dyn-inline-at-limit",
        Wrap::DynBig => "wrap:dyn-boxed-by-size",
        Wrap::DynAligned => "wrap:dyn-boxed-by-align",
        Wrap::BoxDyn => "wrap:box-dyn-inline",
        Wrap::BoxDynBig => "wrap:box-dyn-boxed",
        Wrap::Pad => "wrap:pad-generic",
    }
}

fn create<'c>(k: &'c K, spec: &Spec, env: &Env, fl: Fl) -> Stored<'c> {
    let raw = spec.inst as usize % 3;
    let inst = k.canon[raw];
    touch(1u8 << inst);
    let props = HeldProps::new(&spec.props);
    let own = props.model();
    let seen = env.0[inst].clone();
    // the frame's value, from the property text
    let value = if spec.wrap == Wrap::OptNone {
        None
    } else {
        Some(match spec.kind {
            Kind::Push => {
                if own.is_empty() {
                    seen.clone()
                } else {
                    let mut m = (*seen).clone();
                    for (k, v) in own {
                        m.insert(k, v);
                    }
                    Arc::new(m)
                }
            }
            Kind::Root => Arc::new(own),
            Kind::Disabled | Kind::Current => seen.clone(),
        })
    };
    let base = k.base[raw];
    let (kind, via) = (spec.kind, spec.via_ctxt);
    let frame = match spec.wrap {
        Wrap::Direct => AnyFrame::Direct(mk(base, kind, via, &props)),
        Wrap::Ref => AnyFrame::Ref(mk(&k.base[raw], kind, via, &props)),
        Wrap::Boxed => AnyFrame::Boxed(mk(Box::new(base), kind, via, &props)),
        Wrap::Arced => AnyFrame::Arced(mk(Arc::new(base), kind, via, &props)),
        Wrap::OptSome => AnyFrame::Opt(mk(Some(base), kind, via, &props)),
        Wrap::OptNone => AnyFrame::Opt(mk(None, kind, via, &props)),
        Wrap::Internal => AnyFrame::Internal(mk(AssertInternal(base), kind, via, &props)),
        Wrap::Dyn => AnyFrame::Dyn(mk(k.erased(raw), kind, via, &props)),
        Wrap::DynEdge => AnyFrame::Dyn(mk(&*k.dyn_edge[raw], kind, via, &props)),
        Wrap::DynBig => AnyFrame::Dyn(mk(&*k.dyn_big[raw], kind, via, &props)),
        Wrap::DynAligned => AnyFrame::Dyn(mk(&*k.dyn_aligned[raw], kind, via, &props)),
        Wrap::BoxDyn => AnyFrame::BoxDyn(mk(Box::new(base) as Box<DynCtxt>, kind, via, &props)),
        Wrap::BoxDynBig => AnyFrame::BoxDyn(mk(Box::new(Pad::<3>(base)) as Box<DynCtxt>, kind, via, &props)),
        Wrap::Pad => AnyFrame::Pad(mk(Pad::<3>(base), kind, via, &props)),
    };
    k.label(wrap_label(spec.wrap));
    k.label(match spec.kind {
        Kind::Push => "kind:push",
        Kind::Root => "kind:root",
        Kind::Disabled => "kind:disabled",
        Kind::Current => "kind:current",
    });
    if via {
        k.label("create:via-ctxt-open");
    }
    Stored {
        frame,
        raw,
        inst,
        value,
        seen,
        born_thread: fl.thread,
        born_task: fl.task,
        entered: 0,
    }
}

// ---------------------------------------------------------------------------------------------
// Observation and comparison

#[derive(Debug, PartialEq)]
struct Observed {
    /// the enumeration, sorted (NOT collapsed: a key listed twice is a difference)
    list: Vec<(String, String)>,
    /// `get(key)` for every key of the alphabet
    gets: Vec<Option<String>>,
    /// typed reads that disagree with the enumeration's own typed content are reported here
    typed: Vec<(String, String)>,
}

fn read_props<P: Props + ?Sized>(p: &P) -> Observed {
    let mut list = Vec::new();
    let _ = p.for_each(|k, v| {
        list.push((k.get().to_owned(), v.to_string()));
        ControlFlow::Continue(())
    });
    list.sort();
    let gets = KEYS.iter().map(|k| p.get(*k).map(|v| v.to_string())).collect();
    let mut typed = Vec::new();
    for k in KEYS {
        if let Some(v) = p.get(k) {
            // every typed reading of the value; the comparison picks the one the model's type names
            if let Some(id) = v.by_ref().cast::<TraceId>() {
                typed.push((k.to_string(), format!("trace:{:x}", id.to_u128())));
            }
            if let Some(id) = v.by_ref().cast::<SpanId>() {
                typed.push((k.to_string(), format!("span:{:x}", id.to_u64())));
            }
            if let Some(b) = v.by_ref().cast::<bool>() {
                typed.push((k.to_string(), format!("bool:{b}")));
            }
            if let Some(i) = v.by_ref().cast::<i64>() {
                typed.push((k.to_string(), format!("int:{i}")));
            }
        }
    }
    Observed { list, gets, typed }
}

fn expected_of(m: &Map) -> Observed {
    let list = m.iter().map(|(k, v)| (k.clone(), v.text.clone())).collect();
    let gets = KEYS.iter().map(|k| m.get(*k).map(|v| v.text.clone())).collect();
    let mut typed = Vec::new();
    for k in KEYS {
        if let Some(v) = m.get(k) {
            let t = match &v.val {
                Val::T(h, l) => format!("trace:{:x}", trace_u128(*h, *l)),
                Val::P(id) => format!("span:{:x}", (*id).max(1)),
                Val::B(b) => format!("bool:{b}"),
                Val::I(i) => format!("int:{i}"),
                _ => continue,
            };
            typed.push((k.to_string(), t));
        }
    }
    Observed { list, gets, typed }
}


fn compare(got: &Observed, want: &Map, at: &'static str, who: &str, via: &str) -> Res {
    let want_o = expected_of(want);
    if got.list != want_o.list {
        return Err(Fail::new(
            format!("visible-mismatch@{at}"),
            format!(
                "instance {} observed via {via} at {at}: enumeration {:?} but the innermost active frame's value is {:?}",
                who, got.list, want_o.list
            ),
        ));
    }
    if got.gets != want_o.gets {
        return Err(Fail::new(
            format!("get-mismatch@{at}"),
            format!(
                "instance {} observed via {via} at {at}: get() per key {:?} gives {:?}, expected {:?}",
                who, KEYS, got.gets, want_o.gets
            ),
        ));
    }
    // typed content: ints/bools/ids that went in as such must come out as such. A float or string
    // that merely *casts* to an int is not in `want_o.typed`, so only compare the keys the model lists.
    for (k, t) in &want_o.typed {
        let g: Vec<&str> = got.typed.iter().filter(|(k2, _)| k2 == k).map(|(_, t)| t.as_str()).collect();
        if !g.contains(&t.as_str()) {
            return Err(Fail::new(
                format!("typed-mismatch@{at}"),
                format!(
                    "instance {} observed via {via} at {at}: key {k:?} reads back as {g:?}, expected {t:?}",
                    who
                ),
            ));
        }
    }
    Ok(())
}

fn cmp_props<P: Props + ?Sized>(cur: &P, want: &Map, at: &'static str, who: &str, via: &str) -> Res {
    compare(&read_props(cur), want, at, who, via)
}

fn observe<C: Ctxt + ?Sized>(c: &C) -> Observed {
    c.with_current(|cur| read_props(cur))
}

fn observe_event<C: Ctxt>(c: C) -> Option<Observed> {
    let out = std::cell::RefCell::new(None);
    emit_core::emit(
        emit::emitter::from_fn(|evt| {
            *out.borrow_mut() = Some(read_props(evt.props()));
        }),
        Empty,
        c,
        Empty,
        emit::Event::new(emit::Path::new_raw("c03"), emit::Template::literal("probe"), Empty, Empty),
    );
    out.into_inner()
}

fn obs_name(o: Obs) -> &'static str {
    match o {
        Obs::Direct => "ThreadLocalCtxt",
        Obs::Ref => "&ThreadLocalCtxt",
        Obs::Boxed => "Box<ThreadLocalCtxt>",
        Obs::Arced => "Arc<ThreadLocalCtxt>",
        Obs::OptSome => "Some(ThreadLocalCtxt)",
        Obs::OptNone => "None::<ThreadLocalCtxt>",
        Obs::Internal => "AssertInternal<ThreadLocalCtxt>",
        Obs::Dyn => "&(dyn ErasedCtxt+Send+Sync)",
        Obs::DynPlain => "&dyn ErasedCtxt",
        Obs::DynEdge => "dyn ErasedCtxt over Pad<1>",
        Obs::DynBig => "dyn ErasedCtxt over Pad<3>",
        Obs::DynAligned => "dyn ErasedCtxt over Aligned",
        Obs::BoxDyn => "Box<dyn ErasedCtxt>",
        Obs::Pad => "Pad<3>",
        Obs::Event => "event emitted through emit_core::emit",
        Obs::CurrentFrame => "Frame::current(&ctxt).with",
        Obs::All => "all",
    }
}

fn check_via(k: &K, env: &Env, obs: Obs, at: &'static str) -> Res {
    touch(0b111);
    if obs == Obs::All {
        for o in ALL_OBS {
            check_via(k, env, o, at)?;
        }
        return Ok(());
    }
    let empty = Map::new();
    if obs == Obs::Direct {
        // the process-wide (per thread) shared storage itself: it shows what the model's shared
        // instance shows, and nothing at all if no slot of this case is `shared()`
        let want = match (0..3).find(|i| k.origins[*i] == Origin::Shared) {
            Some(i) => &*env.0[k.canon[i]],
            None => &empty,
        };
        compare(&observe(&ThreadLocalCtxt::shared()), want, at, "ThreadLocalCtxt::shared() itself", obs_name(obs))?;
    }
    for inst in 0..3 {
        let base = k.base[inst];
        let mut want: &Map = &env.0[k.canon[inst]];
        let got = match obs {
            Obs::Direct | Obs::All => observe(&base),
            Obs::Ref => observe(&&base),
            Obs::Boxed => observe(&Box::new(base)),
            Obs::Arced => observe(&Arc::new(base)),
            Obs::OptSome => observe(&Some(base)),
            Obs::OptNone => {
                want = &empty;
                observe(&None::<ThreadLocalCtxt>)
            }
            Obs::Internal => observe(&AssertInternal(base)),
            Obs::Dyn => observe(k.erased(inst)),
            Obs::DynPlain => {
                let d: &dyn ErasedCtxt = &base;
                observe(d)
            }
            Obs::DynEdge => observe(&*k.dyn_edge[inst]),
            Obs::DynBig => observe(&*k.dyn_big[inst]),
            Obs::DynAligned => observe(&*k.dyn_aligned[inst]),
            Obs::BoxDyn => observe(&(Box::new(base) as Box<DynCtxt>)),
            Obs::Pad => observe(&Pad::<3>(base)),
            Obs::Event => match observe_event(base) {
                Some(o) => o,
                None => {
                    return Err(Fail::new(
                        "observe/event-not-delivered",
                        format!("emit_core::emit with Empty filter did not deliver the probe event at {at}"),
                    ))
                }
            },
            Obs::CurrentFrame => {
                let mut out = None;
                Frame::current(&base).with(|cur| out = Some(read_props(cur)));
                out.expect("Frame::with did not call the closure")
            }
        };
        compare(&got, want, at, &k.who[inst], obs_name(obs))?;
    }
    k.stat(|s| s.checks += 1);
    Ok(())
}

/// The automatic check after every exit / poll / unwind / join: all three instances, directly.
fn check_all(k: &K, env: &Env, at: &'static str) -> Res {
    check_via(k, env, Obs::Direct, at)
}

// ---------------------------------------------------------------------------------------------
// Tiny executors

pub type BoxFut<'a, T> = Pin<Box<dyn Future<Output = T> + 'a>>;

/// Drive a fragment that cannot suspend (no `Yield` reachable) to completion with one poll.
fn block_on_ready<T>(mut fut: BoxFut<'_, T>) -> T {
    let mut cx = Context::from_waker(Waker::noop());
    match fut.as_mut().poll(&mut cx) {
        Poll::Ready(v) => v,
        Poll::Pending => panic!("c03 harness: a synchronous fragment suspended"),
    }
}

/// Drive any future to completion; `between` runs after every poll that returned `Pending`.
fn block_on_checked<F: Future>(fut: F, mut between: impl FnMut() -> Res) -> Result<F::Output, Fail> {
    let mut fut = std::pin::pin!(fut);
    let mut cx = Context::from_waker(Waker::noop());
    for _ in 0..100_000 {
        match fut.as_mut().poll(&mut cx) {
            Poll::Ready(v) => return Ok(v),
            Poll::Pending => between()?,
        }
    }
    panic!("c03 harness: future did not complete in 100000 polls")
}

#[derive(Default)]
struct YieldOnce(bool);

impl Future for YieldOnce {
    type Output = ();
    fn poll(mut self: Pin<&mut Self>, _: &mut Context<'_>) -> Poll<()> {
        if self.0 {
            Poll::Ready(())
        } else {
            self.0 = true;
            Poll::Pending
        }
    }
}

/// `catch_unwind` around every poll of the inner future (what `FutureExt::catch_unwind` does).
struct CatchFut<'a, T> {
    inner: Option<BoxFut<'a, T>>,
}

impl<'a, T> Future for CatchFut<'a, T> {
    type Output = Result<T, Box<dyn Any + Send>>;
    fn poll(mut self: Pin<&mut Self>, cx: &mut Context<'_>) -> Poll<Self::Output> {
        let fut = self.inner.as_mut().expect("CatchFut polled after completion");
        match catch_unwind(AssertUnwindSafe(|| fut.as_mut().poll(cx))) {
            Ok(Poll::Pending) => Poll::Pending,
            Ok(Poll::Ready(v)) => {
                self.inner = None;
                Poll::Ready(Ok(v))
            }
            Err(p) => {
                self.inner = None;
                Poll::Ready(Err(p))
            }
        }
    }
}

/// Payload of a generated `Panic` node.
struct PanicMarker;

fn payload_text(p: &(dyn Any + Send)) -> String {
    if let Some(s) = p.downcast_ref::<&str>() {
        s.to_string()
    } else if let Some(s) = p.downcast_ref::<String>() {
        s.clone()
    } else {
        "<non-string panic payload>".to_string()
    }
}

thread_local! {
    /// Bit per instance: some context operation (observation, frame creation, enter) already
    /// happened for it on this thread in this case. Only used to label the class "the first
    /// operation of an instance on a thread is the enter of a frame that came from elsewhere".
    static TOUCHED: std::cell::Cell<u8> = const { std::cell::Cell::new(0) };
}

fn touch(mask: u8) -> u8 {
    TOUCHED.with(|t| {
        let before = t.get();
        t.set(before | mask);
        before
    })
}

thread_local! {
    /// On a spawned thread: the link to the parent thread, which serves check requests while it
    /// waits for this thread (a deterministic hand-off, no timing involved).
    static PARENT: std::cell::RefCell<Option<ParentLink>> = const { std::cell::RefCell::new(None) };
}

struct ParentLink {
    req: std::sync::mpsc::Sender<()>,
    rep: std::sync::mpsc::Receiver<Res>,
}

struct ClearParent;

impl Drop for ClearParent {
    fn drop(&mut self) {
        PARENT.with(|p| p.borrow_mut().take());
    }
}

/// Run `f` on a fresh OS thread and wait for it. While waiting, the calling thread answers the
/// child's `ParentCheck` requests by checking its own view against `parent_env`.
fn on_fresh_thread<T: Send>(k: &K, parent_env: &Env, f: impl FnOnce() -> Result<T, Fail> + Send) -> Result<T, Fail> {
    let (req_tx, req_rx) = std::sync::mpsc::channel::<()>();
    let (rep_tx, rep_rx) = std::sync::mpsc::channel::<Res>();
    let r = std::thread::scope(|s| {
        let h = s.spawn(move || {
            PARENT.with(|p| *p.borrow_mut() = Some(ParentLink { req: req_tx, rep: rep_rx }));
            let _clear = ClearParent;
            f()
        });
        // ends when the child drops its sender (normal end, failure or unwinding)
        while req_rx.recv().is_ok() {
            let r = check_all(k, parent_env, "parent-while-child-thread-runs");
            let _ = rep_tx.send(r);
        }
        h.join()
    });
    joined(r, k)
}

/// Result of joining a scoped thread that ran a program fragment.
fn joined<T>(r: std::thread::Result<Result<T, Fail>>, k: &K) -> Result<T, Fail> {
    match r {
        Ok(r) => r,
        Err(p) if p.is::<PanicMarker>() => {
            // a generated panic left the thread: it continues in the parent, as it does when a
            // caller propagates `JoinHandle::join`'s error
            k.label("panic:across-thread-join");
            resume_unwind(p)
        }
        Err(p) => Err(Fail::new(
            "panic-on-spawned-thread",
            format!("unexpected panic on a spawned thread: {}", payload_text(&*p)),
        )),
    }
}

// ---------------------------------------------------------------------------------------------
// The interpreter

pub fn run<'a, 'c: 'a>(nodes: &'a [Node], env: Env, st: &'a mut Store<'c>, k: &'c K, fl: Fl) -> BoxFut<'a, Res> {
    Box::pin(async move {
        for n in nodes {
            step(n, &env, st, k, fl).await?;
        }
        Ok(())
    })
}

fn take_carried<'c>(st: &mut Store<'c>, carry: &[u32]) -> Store<'c> {
    let mut moved = Vec::new();
    for c in carry {
        if !st.is_empty() {
            let i = pick(*c, st.len());
            moved.push(st.remove(i));
        }
    }
    moved
}

async fn step<'a, 'c: 'a>(n: &'a Node, env: &'a Env, st: &'a mut Store<'c>, k: &'c K, fl: Fl) -> Res {
    match n {
        Node::Check(obs) => check_via(k, env, *obs, "check"),
        Node::Create(spec) => {
            let s = create(k, spec, env, fl);
            st.push(s);
            // creating a frame shows nothing yet
            check_all(k, env, "after-create")
        }
        Node::Frame { spec, how, body } => {
            let s = create(k, spec, env, fl);
            if let Some(back) = enter_stored(s, *how, body, env, st, k, fl).await? {
                st.push(back);
            }
            Ok(())
        }
        Node::Enter { slot, how, body } => {
            if st.is_empty() {
                return check_all(k, env, "check");
            }
            let s = st.remove(pick(*slot, st.len()));
            if let Some(back) = enter_stored(s, *how, body, env, st, k, fl).await? {
                st.push(back);
            }
            Ok(())
        }
        Node::CatchPanic(body) => {
            let mut fl_in = fl;
            fl_in.in_catch = true;
            fl_in.since_catch = 0;
            let r = CatchFut {
                inner: Some(run(body, env.clone(), &mut *st, k, fl_in)),
            }
            .await;
            match r {
                Ok(res) => {
                    res?;
                    check_all(k, env, "after-catch-no-panic")
                }
                Err(p) if p.is::<PanicMarker>() => check_all(k, env, "after-unwind"),
                Err(p) => resume_unwind(p),
            }
        }
        Node::Panic => {
            if fl.in_catch {
                k.label("panic");
                if fl.since_catch > 0 {
                    k.label("panic:through-frame");
                }
                if fl.since_catch > 1 {
                    k.label("panic:through>=2-frames");
                }
                if fl.fut_depth > 0 {
                    k.label("panic:through-frame-future");
                }
                // no panic hook, no message: pure unwinding
                resume_unwind(Box::new(PanicMarker));
            }
            Ok(())
        }
        Node::Thread { carry, body, quiet } => {
            let quiet = *quiet;
            let moved = take_carried(st, carry);
            if !moved.is_empty() {
                k.label("thread:carried-frames");
            }
            let tid = k.next_thread.fetch_add(1, Ordering::Relaxed);
            k.label("thread");
            let fl_t = Fl {
                can_yield: false,
                in_catch: fl.in_catch,
                thread: tid,
                task: 0,
                depth: 0,
                active: 0,
                since_catch: fl.since_catch,
                fut_depth: 0,
            };
            let back = on_fresh_thread(k, env, move || -> Result<Store<'c>, Fail> {
                // a fresh thread sees nothing, whatever is active on its parent
                let e = Env::empty();
                if !quiet {
                    check_all(k, &e, "thread-start")?;
                }
                let mut st2 = moved;
                block_on_ready(run(body, e.clone(), &mut st2, k, fl_t))?;
                check_all(k, &e, "thread-end")?;
                Ok(st2)
            })?;
            st.extend(back);
            // the parent is unaffected by whatever the thread did
            check_all(k, env, "after-thread-join")
        }
        Node::Join { tasks, schedule } => join(tasks, schedule, env, st, k, fl),
        Node::ParentCheck => {
            let asked = PARENT.with(|p| {
                p.borrow().as_ref().map(|l| {
                    let _ = l.req.send(());
                    l.rep.recv()
                })
            });
            match asked {
                // main thread: nobody to ask
                None => check_all(k, env, "check"),
                Some(Ok(parent_result)) => {
                    k.label("thread:parent-checked-while-child-runs");
                    if fl.depth > 0 {
                        k.label("thread:parent-checked-while-child-has-active-frame");
                    }
                    parent_result?;
                    check_all(k, env, "check")
                }
                Some(Err(_)) => panic!("c03 harness: parent thread went away"),
            }
        }
        Node::Yield => {
            if fl.can_yield {
                k.label("yield");
                if fl.fut_depth > 0 {
                    k.label("yield:suspends-frame");
                }
                if fl.fut_depth > 1 {
                    k.label("yield:suspends>=2-frames");
                }
                k.last_yield_depth.store(fl.fut_depth, Ordering::Relaxed);
                YieldOnce::default().await;
            }
            Ok(())
        }
    }
}

/// A task future is never suspended while it holds a `!Send` value (guards live within one poll:
/// synchronous bodies cannot suspend), so a *suspended* task may be polled from another thread.
struct AssertSend<T>(T);
unsafe impl<T> Send for AssertSend<T> {}

fn join<'a, 'c: 'a>(tasks: &'a [Task], schedule: &'a [(u32, u8)], env: &'a Env, st: &'a mut Store<'c>, k: &'c K, fl: Fl) -> Res {
    k.label("join");
    // polling elsewhere is only meaningful for the lexical model where the executor's thread shows
    // nothing (a fresh thread shows nothing either)
    let may_migrate = env.0.iter().all(|m| m.is_empty());
    let n = tasks.len();
    let mut futs: Vec<Option<BoxFut<'a, Result<Store<'c>, Fail>>>> = Vec::with_capacity(n);
    for t in tasks {
        let moved = take_carried(st, &t.carry);
        if !moved.is_empty() {
            k.label("task:carried-frames");
        }
        let fl_t = Fl {
            can_yield: true,
            task: k.next_task.fetch_add(1, Ordering::Relaxed),
            fut_depth: 0,
            ..fl
        };
        let env_t = env.clone();
        let body: &'a [Node] = &t.body;
        futs.push(Some(Box::pin(async move {
            let mut st2 = moved;
            run(body, env_t, &mut st2, k, fl_t).await?;
            Ok(st2)
        })));
    }
    let mut polled = vec![false; n];
    let mut other_since = vec![false; n];
    let mut suspended_frames = vec![0u32; n];
    let mut sched = schedule.iter();
    let mut rr = 0usize;
    let mut cx = Context::from_waker(Waker::noop());
    let mut guard = 0u32;
    loop {
        let alive: Vec<usize> = (0..n).filter(|i| futs[*i].is_some()).collect();
        if alive.is_empty() {
            break;
        }
        let (i, elsewhere) = match sched.next() {
            Some((x, place)) => (alive[pick(*x, alive.len())], if may_migrate { *place % 3 } else { 0 }),
            None => {
                rr += 1;
                (alive[rr % alive.len()], 0)
            }
        };
        guard += 1;
        assert!(guard < 100_000, "c03 harness: tasks do not complete");
        if polled[i] && other_since[i] {
            k.label("tasks:resumed-after-other-ran");
            if suspended_frames[i] > 0 {
                k.label("tasks:interleaved");
            }
        }
        polled[i] = true;
        other_since[i] = false;
        for j in 0..n {
            if j != i && polled[j] && futs[j].is_some() {
                other_since[j] = true;
            }
        }
        k.stat(|s| s.polls += 1);
        let r = if elsewhere > 0 {
            k.label("thread");
            k.label("join:polled-on-helper-thread");
            if suspended_frames[i] > 0 {
                // a suspended frame-wrapped future resumed on a different thread
                k.label("hop:suspended-future-resumed-on-other-thread");
                if elsewhere == 2 {
                    k.label("fresh-thread-first-op-is-enter");
                    k.label("fresh-thread-first-op-is-enter:carried-frame");
                }
            }
            let fut = AssertSend(futs[i].as_mut().unwrap());
            on_fresh_thread(k, env, move || {
                let fut = fut;
                let e = Env::empty();
                if elsewhere == 1 {
                    check_all(k, &e, "thread-start")?;
                }
                let mut cx = Context::from_waker(Waker::noop());
                let r = fut.0.as_mut().poll(&mut cx);
                // completed or suspended: the helper thread is left as it was found
                check_all(k, &e, "after-poll-on-helper-thread")?;
                Ok(AssertSend(r))
            })?
            .0
        } else {
            futs[i].as_mut().unwrap().as_mut().poll(&mut cx)
        };
        // a task that completed or merely suspended leaves the executor's thread as it found it
        match r {
            Poll::Pending => {
                suspended_frames[i] = k.last_yield_depth.load(Ordering::Relaxed);
                check_all(k, env, "after-poll-pending")?;
            }
            Poll::Ready(r) => {
                futs[i] = None;
                check_all(k, env, "after-poll-ready")?;
                st.extend(r?);
            }
        }
    }
    if n >= 2 {
        k.label("join:>=2-tasks");
    }
    Ok(())
}

struct Info<'e> {
    inst: usize,
    who: &'e str,
    has_value: bool,
    /// what the frame's own context shows while the frame is active
    shows: &'e Map,
    via: &'static str,
}

async fn enter_stored<'a, 'c: 'a>(
    s: Stored<'c>,
    how: How,
    body: &'a [Node],
    env: &'a Env,
    st: &'a mut Store<'c>,
    k: &'c K,
    fl: Fl,
) -> Result<Option<Stored<'c>>, Fail> {
    let Stored {
        frame,
        raw,
        inst,
        value,
        seen,
        born_thread,
        born_task,
        entered,
    } = s;
    let inner = match &value {
        Some(v) => env.with(inst, v.clone()),
        None => env.clone(),
    };
    let mut fl_in = fl;
    if value.is_some() {
        // (in_fn-on-thread enters on the new thread, not here: labelled there)
        let enters_here = !matches!(how, How::InFnThread | How::InFnThreadQuiet);
        if enters_here && touch(1u8 << inst) & (1u8 << inst) == 0 {
            // nothing was observed or created for this instance on this thread before
            k.label("fresh-thread-first-op-is-enter");
            if born_thread != fl.thread {
                k.label("fresh-thread-first-op-is-enter:carried-frame");
            }
        }
        // which kinds of instances meet: a frame that shows something is active on this one while
        // every other (distinct) instance is observed by the checks that follow
        let mine = k.origins[raw].class();
        k.label(KIND_LABEL[mine]);
        if value.as_ref().is_some_and(|v| !v.is_empty()) {
            for other in 0..3 {
                if k.canon[other] != inst {
                    let theirs = k.origins[other].class();
                    k.label(PAIR_LABEL[mine][theirs]);
                    if fl.active & (1u8 << k.canon[other]) != 0 {
                        k.label(PAIR_ACTIVE_LABEL[mine][theirs]);
                    }
                }
            }
        }
        fl_in.depth += 1;
        fl_in.since_catch += 1;
        if fl.active & !(1u8 << inst) != 0 {
            k.label("second-instance");
        }
        fl_in.active |= 1u8 << inst;
        let d = fl_in.depth;
        k.stat(|s| {
            s.max_depth = s.max_depth.max(d);
            s.frames_entered += 1;
        });
        if born_thread != fl.thread {
            k.label("hop:thread-carried-frame");
        }
        if born_task != fl.task && born_thread == fl.thread {
            k.label("hop:task-carried-frame");
        }
        if *seen != *env.0[inst] {
            k.label("deferred:entered-where-something-else-is-visible");
        }
        if entered > 0 {
            k.label("reentry");
            k.label("reentry:stored-frame");
        }
    }
    k.label(match how {
        How::Guard => "how:guard",
        How::With => "how:with",
        How::Call => "how:call",
        How::InFn => "how:in_fn",
        How::InFnThread | How::InFnThreadQuiet => "how:in_fn-on-thread",
        How::InFuture => "how:in_future",
        How::EnterTwice => "how:enter-twice",
        How::Manual => "how:manual",
        How::ManualClose => "how:manual-close",
    });
    let empty = Map::new();
    let info = Info {
        inst,
        who: &k.who[raw],
        has_value: value.is_some(),
        shows: match &value {
            Some(v) => v,
            None => &empty,
        },
        via: "the frame's own context",
    };
    macro_rules! go {
        ($f:expr, $re:expr) => {
            exec($f, how, body, env, &inner, &info, st, k, fl, fl_in).await?.map($re)
        };
    }
    let back: Option<AnyFrame<'c>> = match frame {
        AnyFrame::Direct(f) => go!(f, AnyFrame::Direct),
        AnyFrame::Ref(f) => go!(f, AnyFrame::Ref),
        AnyFrame::Boxed(f) => go!(f, AnyFrame::Boxed),
        AnyFrame::Arced(f) => go!(f, AnyFrame::Arced),
        AnyFrame::Opt(f) => go!(f, AnyFrame::Opt),
        AnyFrame::Internal(f) => go!(f, AnyFrame::Internal),
        AnyFrame::Dyn(f) => go!(f, AnyFrame::Dyn),
        AnyFrame::BoxDyn(f) => go!(f, AnyFrame::BoxDyn),
        AnyFrame::Pad(f) => go!(f, AnyFrame::Pad),
    };
    Ok(back.map(|frame| Stored {
        frame,
        raw,
        inst,
        value,
        seen,
        born_thread,
        born_task,
        entered: entered + 1,
    }))
}

/// Calls `ctxt.exit(frame)` when dropped: the manual enter/exit pair of a careful caller (the
/// same shape as `EnterGuard`, but written against the raw `Ctxt` API).
struct ExitOnDrop<'x, C: Ctxt> {
    ctxt: &'x C,
    frame: &'x mut C::Frame,
}

impl<'x, C: Ctxt> Drop for ExitOnDrop<'x, C> {
    fn drop(&mut self) {
        self.ctxt.exit(self.frame)
    }
}

#[allow(clippy::too_many_arguments)]
async fn exec<'a, 'c: 'a, C>(
    mut frame: Frame<C>,
    how: How,
    body: &'a [Node],
    outer: &'a Env,
    inner: &'a Env,
    info: &'a Info<'a>,
    st: &'a mut Store<'c>,
    k: &'c K,
    fl_out: Fl,
    fl_in: Fl,
) -> Result<Option<Frame<C>>, Fail>
where
    C: Ctxt + Send + 'a,
    C::Frame: Send + 'static,
{
    // bodies of synchronous forms cannot suspend: the guard would be held across the suspension
    let fl_sync = Fl {
        can_yield: false,
        fut_depth: 0,
        ..fl_in
    };
    let (inst, via, who) = (info.inst, info.via, info.who);
    match how {
        How::Guard => {
            {
                let mut g = frame.enter();
                g.with(|cur| cmp_props(cur, info.shows, "inside-guard.with", who, via))?;
                check_all(k, inner, "after-enter")?;
                run(body, inner.clone(), st, k, fl_sync).await?;
                check_all(k, inner, "before-guard-drop")?;
            }
            check_all(k, outer, "after-guard-drop")?;
            Ok(Some(frame))
        }
        How::With => {
            frame.with(|cur| {
                cmp_props(cur, info.shows, "inside-with", who, via)?;
                check_all(k, inner, "after-enter")?;
                block_on_ready(run(body, inner.clone(), st, k, fl_sync))
            })?;
            check_all(k, outer, "after-with-return")?;
            Ok(Some(frame))
        }
        How::Call => {
            frame.call(|| {
                check_all(k, inner, "after-enter")?;
                block_on_ready(run(body, inner.clone(), st, k, fl_sync))
            })?;
            check_all(k, outer, "after-call-return")?;
            Ok(None)
        }
        How::InFn => {
            let f = frame.in_fn(|| {
                check_all(k, inner, "after-enter")?;
                block_on_ready(run(body, inner.clone(), st, k, fl_sync))
            });
            // nothing is active until the function runs
            check_all(k, outer, "after-in_fn-created")?;
            f()?;
            check_all(k, outer, "after-in_fn-return")?;
            Ok(None)
        }
        How::InFnThread | How::InFnThreadQuiet => {
            let quiet = how == How::InFnThreadQuiet;
            if quiet && info.has_value {
                k.label("fresh-thread-first-op-is-enter");
                k.label("fresh-thread-first-op-is-enter:carried-frame");
            }
            let tid = k.next_thread.fetch_add(1, Ordering::Relaxed);
            k.label("thread");
            if info.has_value {
                k.label("hop:thread-carried-frame");
            }
            // on the new thread only this frame is active
            let e0 = Env::empty();
            let e_in = if info.has_value {
                e0.with(inst, inner.0[inst].clone())
            } else {
                e0.clone()
            };
            let fl_t = Fl {
                can_yield: false,
                in_catch: fl_in.in_catch,
                thread: tid,
                task: 0,
                depth: info.has_value as u32,
                active: if info.has_value { 1u8 << inst } else { 0 },
                since_catch: fl_in.since_catch,
                fut_depth: 0,
            };
            let e_in2 = e_in.clone();
            let f = frame.in_fn(move || -> Res {
                check_all(k, &e_in2, "after-enter")?;
                let mut st2: Store<'c> = Vec::new();
                block_on_ready(run(body, e_in2.clone(), &mut st2, k, fl_t))?;
                drop(st2);
                check_all(k, &e_in2, "before-in_fn-return")
            });
            on_fresh_thread(k, outer, move || -> Res {
                if !quiet {
                    check_all(k, &e0, "thread-start")?;
                }
                f()?;
                check_all(k, &e0, "thread-end")
            })?;
            check_all(k, outer, "after-thread-join")?;
            Ok(None)
        }
        How::InFuture => {
            let suspended_outside = if fl_out.can_yield { fl_out.fut_depth } else { 0 };
            let fl_f = Fl {
                can_yield: true,
                fut_depth: suspended_outside + info.has_value as u32,
                ..fl_in
            };
            if fl_out.can_yield {
                // inside a task: the surrounding executor decides when we are polled
                frame.in_future(run(body, inner.clone(), st, k, fl_f)).await?;
            } else {
                // from synchronous code: a nested executor; between two polls nothing of the
                // frame may remain
                k.label("in_future:nested-executor");
                let fut = frame.in_future(run(body, inner.clone(), st, k, fl_f));
                block_on_checked(fut, || {
                    k.label("in_future:suspended-between-polls");
                    check_all(k, outer, "between-polls")
                })??;
            }
            check_all(k, outer, "after-future-complete")?;
            Ok(None)
        }
        How::EnterTwice => {
            {
                let mut g = frame.enter();
                g.with(|cur| cmp_props(cur, info.shows, "inside-guard.with", who, via))?;
                run(body, inner.clone(), st, k, fl_sync).await?;
            }
            check_all(k, outer, "after-guard-drop")?;
            if info.has_value {
                k.label("reentry");
                k.label("reentry:enter-twice");
            }
            {
                let mut g = frame.enter();
                g.with(|cur| cmp_props(cur, info.shows, "inside-second-guard.with", who, via))?;
                check_all(k, inner, "after-second-enter")?;
            }
            check_all(k, outer, "after-second-guard-drop")?;
            Ok(Some(frame))
        }
        How::Manual | How::ManualClose => {
            let (ctxt, mut raw) = frame.into_parts();
            // splitting a frame activates nothing
            check_all(k, outer, "after-into_parts")?;
            {
                ctxt.enter(&mut raw);
                let _exit = ExitOnDrop {
                    ctxt: &ctxt,
                    frame: &mut raw,
                };
                ctxt.with_current(|cur| cmp_props(cur, info.shows, "inside-manual-enter", who, via))?;
                check_all(k, inner, "after-enter")?;
                run(body, inner.clone(), st, k, fl_sync).await?;
            }
            check_all(k, outer, "after-manual-exit")?;
            if how == How::ManualClose {
                ctxt.close(raw);
                check_all(k, outer, "after-close")?;
                Ok(None)
            } else {
                Ok(Some(Frame::from_parts(ctxt, raw)))
            }
        }
    }
}

// ---------------------------------------------------------------------------------------------
// One case

fn shared_is_clean() -> bool {
    ThreadLocalCtxt::shared().with_current(|cur| {
        let mut n = 0;
        let _ = cur.for_each(|_, _| {
            n += 1;
            ControlFlow::Continue(())
        });
        n == 0
    })
}

/// After a FAILED case the process-wide (per thread) `shared()` storage of this worker may be
/// dirty; later cases (shrinking!) run on the same thread. Make it show nothing again.
fn scrub_shared() {
    if !shared_is_clean() {
        let c = ThreadLocalCtxt::shared();
        let mut f = c.open_root(Empty);
        c.enter(&mut f);
        drop(f);
    }
}

pub fn run_case(case: &Case) -> Result<Stats, Fail> {
    scrub_shared();
    // this case's A and B are brand new; the per-thread shared() storage may have been used before
    let k = K::new(case.origins);
    // the per-thread shared() storage has been used on this worker before; everything else is new
    let mut touched = 0u8;
    for i in 0..3 {
        if case.origins[i] == Origin::Shared {
            touched |= 1u8 << k.canon[i];
        }
    }
    TOUCHED.with(|t| t.set(touched));
    let env = Env::empty();
    let r = {
        let mut st: Store<'_> = Vec::new();
        let r = catch_unwind(AssertUnwindSafe(|| {
            if !case.quiet_start {
                check_via(&k, &env, Obs::All, "program-start")?;
            }
            block_on_ready(run(&case.prog, env.clone(), &mut st, &k, Fl::root()))
        }));
        // frames never entered again are closed here
        drop(st);
        r
    };
    let end = match &r {
        Ok(Ok(())) => check_via(&k, &env, Obs::All, "program-end"),
        _ => Ok(()),
    };
    scrub_shared();
    match r {
        Ok(res) => res?,
        Err(p) => resume_unwind(p),
    }
    end?;
    let stats = k.stats.lock().unwrap().clone();
    Ok(stats)
}
