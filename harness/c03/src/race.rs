//! Instances created concurrently are still isolated (OS-schedule sampling).
//!
//! `ThreadLocalCtxt::new()` promises "fully isolated storage". The tree-program generator creates
//! its instances one after the other on one thread, so it never exercises the allocation of the
//! instance identity under contention. Here K threads released together by a spin barrier create
//! fresh instances in many small rounds; ALL instances (plus `ThreadLocalCtxt::shared()`) are then
//! handed to ONE fresh thread, which enters one frame per instance carrying that instance's own
//! owner number, and — while all of them are entered — requires every instance to show exactly
//! its own frame. The verdict needs no knowledge of the schedule: whatever the interleaving of the
//! creations was, two instances showing each other's frame is a violation of the isolation clause.
//! Which interleavings occur is up to the OS scheduler (sampled, not enumerated).

use std::ops::ControlFlow;
use std::sync::atomic::{AtomicUsize, Ordering};

use emit::platform::thread_local_ctxt::ThreadLocalCtxt;
use emit::{Ctxt, Frame, Props};
use serde::{Deserialize, Serialize};
use vcore::{Cx, Fail, Res};

#[derive(Serialize, Deserialize, Debug, Clone, PartialEq)]
pub struct RaceCase {
    /// creator threads (2..=8)
    pub threads: u8,
    /// barrier-released rounds
    pub rounds: u16,
    /// instances each thread creates per round
    pub per_round: u16,
    /// busy-wait iterations of thread t in round r after the barrier: `skews[(t + r) % len]`
    pub skews: Vec<u16>,
    /// where `shared()` is placed in the entering order
    pub shared_at: u32,
    /// bit i%64: instance i gets a root frame (1) or a push frame (0)
    pub kinds: u64,
}

/// Sense-reversing spin barrier (yields after a while so that oversubscription cannot livelock).
struct SpinBarrier {
    n: usize,
    count: AtomicUsize,
    generation: AtomicUsize,
}

impl SpinBarrier {
    fn new(n: usize) -> Self {
        SpinBarrier {
            n,
            count: AtomicUsize::new(0),
            generation: AtomicUsize::new(0),
        }
    }

    fn wait(&self) {
        let gen = self.generation.load(Ordering::Acquire);
        if self.count.fetch_add(1, Ordering::AcqRel) + 1 == self.n {
            self.count.store(0, Ordering::Release);
            self.generation.store(gen.wrapping_add(1), Ordering::Release);
        } else {
            let mut spins = 0u32;
            while self.generation.load(Ordering::Acquire) == gen {
                spins += 1;
                if spins > 20_000 {
                    std::thread::yield_now();
                } else {
                    std::hint::spin_loop();
                }
            }
        }
    }
}

fn read<P: Props + ?Sized>(p: &P) -> (Vec<(String, String)>, Option<String>) {
    let mut list = Vec::new();
    let _ = p.for_each(|k, v| {
        list.push((k.get().to_owned(), v.to_string()));
        ControlFlow::Continue(())
    });
    list.sort();
    (list, p.get("owner").map(|v| v.to_string()))
}

const TAGS: [&str; 5] = ["t0", "t1", "t2", "t3", "t4"];

/// One execution of the workload. `Ok(instances)` or the isolation failure.
pub fn run_once(c: &RaceCase) -> Result<usize, Fail> {
    let threads = (c.threads as usize).clamp(2, 8);
    let rounds = (c.rounds as usize).clamp(1, 400);
    let per_round = (c.per_round as usize).clamp(1, 64);
    let barrier = SpinBarrier::new(threads);

    // phase 1: concurrent creation
    let mut all: Vec<ThreadLocalCtxt> = std::thread::scope(|s| {
        let handles: Vec<_> = (0..threads)
            .map(|t| {
                let barrier = &barrier;
                s.spawn(move || {
                    let mut mine = Vec::with_capacity(rounds * per_round);
                    for r in 0..rounds {
                        barrier.wait();
                        let skew = if c.skews.is_empty() { 0 } else { c.skews[(t + r) % c.skews.len()] };
                        for _ in 0..skew {
                            std::hint::spin_loop();
                        }
                        for _ in 0..per_round {
                            mine.push(ThreadLocalCtxt::new());
                        }
                    }
                    mine
                })
            })
            .collect();
        let mut all = Vec::new();
        for h in handles {
            all.extend(h.join().expect("creator thread panicked"));
        }
        all
    });
    let at = vcore::pick(c.shared_at, all.len() + 1);
    all.insert(at, ThreadLocalCtxt::shared());
    let n = all.len();

    // phase 2: ONE fresh thread uses all of them at once
    let kinds = c.kinds;
    let verdict: Res = std::thread::scope(|s| {
        s.spawn(move || -> Res {
            let fail = |what: &str, i: usize, detail: String| {
                Err(Fail::new(
                    format!("isolation/concurrently-created-instances@{what}"),
                    format!("instance #{i} of {n} (created by racing threads; #{at} is shared()): {detail}"),
                ))
            };
            for (i, ctxt) in all.iter().enumerate() {
                let (list, _) = ctxt.with_current(|cur| read(cur));
                if !list.is_empty() {
                    return fail("before-any-enter", i, format!("a never-used instance on a fresh thread shows {list:?}"));
                }
            }
            // create each frame right before entering it, so a push frame snapshots whatever its
            // instance shows at that moment (nothing, if the instance is really its own)
            let mut frames: Vec<Option<Frame<ThreadLocalCtxt>>> = (0..n).map(|_| None).collect();
            let mut entered: Vec<emit::frame::EnterGuard<'_, ThreadLocalCtxt>> = Vec::with_capacity(n);
            for (i, (ctxt, slot)) in all.iter().zip(frames.iter_mut()).enumerate() {
                let props = [("owner", i as i64), (TAGS[i % TAGS.len()], i as i64)];
                let f = if (kinds >> (i % 64)) & 1 == 1 {
                    Frame::root(*ctxt, props)
                } else {
                    Frame::push(*ctxt, props)
                };
                entered.push(slot.insert(f).enter());
            }
            // all entered: every instance shows exactly its own frame
            for (i, ctxt) in all.iter().enumerate() {
                let (list, owner) = ctxt.with_current(|cur| read(cur));
                let want = {
                    let mut w = vec![
                        ("owner".to_string(), i.to_string()),
                        (TAGS[i % TAGS.len()].to_string(), i.to_string()),
                    ];
                    w.sort();
                    w
                };
                if list != want || owner.as_deref() != Some(i.to_string().as_str()) {
                    return fail(
                        "all-entered",
                        i,
                        format!("shows {list:?} (get(owner) = {owner:?}) while its own entered frame is {want:?}"),
                    );
                }
            }
            // stack-ordered exit
            while let Some(g) = entered.pop() {
                drop(g);
            }
            for (i, ctxt) in all.iter().enumerate() {
                let (list, _) = ctxt.with_current(|cur| read(cur));
                if !list.is_empty() {
                    return fail("after-all-exited", i, format!("still shows {list:?}"));
                }
            }
            Ok(())
        })
        .join()
        .expect("entering thread panicked")
    });
    verdict.map(|()| n)
}

pub fn check(c: &RaceCase, cx: &mut Cx) -> Res {
    // the schedule is not owned: a stored failing workload is re-run many times on replay
    let repeats = if cx.replaying { 200 } else { 1 };
    let mut n = 0;
    for _ in 0..repeats {
        match run_once(c) {
            Ok(k) => n = k,
            Err(f) => return cx.fail(f.sig, f.msg),
        }
    }
    let threads = (c.threads as usize).clamp(2, 8);
    cx.class("race:case");
    cx.class_if(threads >= 4, "race:threads>=4");
    cx.class_if(n >= 1000, "race:instances>=1000");
    cx.class_if(c.rounds >= 50, "race:rounds>=50");
    cx.class_if(c.skews.iter().any(|s| *s > 0), "race:skewed");
    cx.nontrivial(threads >= 2 && n >= 3);
    Ok(())
}
