//! Wrapper contexts over the real `ThreadLocalCtxt` whose only purpose is to give the frame a
//! different size / alignment, so that `dyn ErasedCtxt` stores it inline-at-the-limit (16 bytes),
//! boxed-by-size (32 bytes) or boxed-by-alignment (align 16). Every method delegates to the real
//! `ThreadLocalCtxt`; the padding is a canary that is verified on every operation.

use emit::platform::thread_local_ctxt::{ThreadLocalCtxt, ThreadLocalCtxtFrame};
use emit::{Ctxt, Props};

const CANARY: usize = 0xC03C_A11A_5EED_0000u64 as usize;

/// `Pad<1>`: frame is 2 words (inline in an erased frame, exactly at the limit);
/// `Pad<3>`: frame is 4 words (boxed in an erased frame).
#[derive(Debug, Clone, Copy)]
pub struct Pad<const N: usize>(pub ThreadLocalCtxt);

pub struct PadFrame<const N: usize> {
    inner: ThreadLocalCtxtFrame,
    canary: [usize; N],
}

impl<const N: usize> PadFrame<N> {
    fn new(inner: ThreadLocalCtxtFrame) -> Self {
        let mut canary = [0usize; N];
        for (j, c) in canary.iter_mut().enumerate() {
            *c = CANARY.wrapping_add(j);
        }
        PadFrame { inner, canary }
    }

    fn verify(&self, at: &str) {
        for (j, c) in self.canary.iter().enumerate() {
            assert!(
                *c == CANARY.wrapping_add(j),
                "erased frame storage corrupted the frame padding (word {j}) at {at}"
            );
        }
    }
}

impl<const N: usize> Ctxt for Pad<N> {
    type Current = ThreadLocalCtxtFrame;
    type Frame = PadFrame<N>;

    fn with_current<R, F: FnOnce(&Self::Current) -> R>(&self, with: F) -> R {
        self.0.with_current(with)
    }

    fn open_root<P: Props>(&self, props: P) -> Self::Frame {
        PadFrame::new(self.0.open_root(props))
    }

    fn open_push<P: Props>(&self, props: P) -> Self::Frame {
        PadFrame::new(self.0.open_push(props))
    }

    fn open_disabled<P: Props>(&self, props: P) -> Self::Frame {
        PadFrame::new(self.0.open_disabled(props))
    }

    fn enter(&self, frame: &mut Self::Frame) {
        frame.verify("enter");
        self.0.enter(&mut frame.inner)
    }

    fn exit(&self, frame: &mut Self::Frame) {
        frame.verify("exit");
        self.0.exit(&mut frame.inner)
    }

    fn close(&self, frame: Self::Frame) {
        frame.verify("close");
        self.0.close(frame.inner)
    }
}

/// Frame is 2 words but 16-byte aligned: does not fit an erased frame's inline slot because of
/// its alignment, so it takes the boxed path.
#[derive(Debug, Clone, Copy)]
pub struct Aligned(pub ThreadLocalCtxt);

#[repr(align(16))]
pub struct AlignedFrame {
    inner: ThreadLocalCtxtFrame,
    canary: usize,
}

impl AlignedFrame {
    fn new(inner: ThreadLocalCtxtFrame) -> Self {
        AlignedFrame { inner, canary: CANARY }
    }

    fn verify(&self, at: &str) {
        assert!(
            self.canary == CANARY,
            "erased frame storage corrupted the over-aligned frame at {at}"
        );
        assert!(
            (self as *const Self as usize) % 16 == 0,
            "erased frame storage mis-aligned the over-aligned frame at {at}"
        );
    }
}

impl Ctxt for Aligned {
    type Current = ThreadLocalCtxtFrame;
    type Frame = AlignedFrame;

    fn with_current<R, F: FnOnce(&Self::Current) -> R>(&self, with: F) -> R {
        self.0.with_current(with)
    }

    fn open_root<P: Props>(&self, props: P) -> Self::Frame {
        AlignedFrame::new(self.0.open_root(props))
    }

    fn open_push<P: Props>(&self, props: P) -> Self::Frame {
        AlignedFrame::new(self.0.open_push(props))
    }

    fn open_disabled<P: Props>(&self, props: P) -> Self::Frame {
        AlignedFrame::new(self.0.open_disabled(props))
    }

    fn enter(&self, frame: &mut Self::Frame) {
        frame.verify("enter");
        self.0.enter(&mut frame.inner)
    }

    fn exit(&self, frame: &mut Self::Frame) {
        frame.verify("exit");
        self.0.exit(&mut frame.inner)
    }

    fn close(&self, frame: Self::Frame) {
        frame.verify("close");
        self.0.close(frame.inner)
    }
}

/// Sizes the erased-frame inline test compares against (mirrors `RawErasedFrame`: two words,
/// word aligned). Used only to *label* which storage path a wrapper takes.
pub fn fits_inline<T>() -> bool {
    std::mem::size_of::<T>() <= 2 * std::mem::size_of::<usize>()
        && std::mem::align_of::<T>() <= std::mem::align_of::<usize>()
}
