//! Recording components shared by both C05 domains: a per-case state (`St`) that logs every
//! completion / emitted event, every clock reading (tagged with the driver's current phase), the ids
//! the filter saw, plus the scripted clock, counter rng, verdict filter and recording emitter that
//! write into it. One case runs on one thread, so interior mutability is `Cell`/`RefCell`.

use std::cell::{Cell, RefCell};
use std::ops::ControlFlow;
use std::rc::Rc;
use std::time::Duration;

use emit::event::ToEvent;
use emit::platform::thread_local_ctxt::ThreadLocalCtxt;
use emit::{Clock, Emitter, Event, Filter, Props, Rng, Timestamp};
use serde::{Deserialize, Serialize};

pub const LEVELS: [emit::Level; 4] = [emit::Level::Debug, emit::Level::Info, emit::Level::Warn, emit::Level::Error];

pub fn lvl_rank(l: emit::Level) -> usize {
    LEVELS.iter().position(|x| *x == l).unwrap_or(1)
}

/// Needles for the template-keyed filter: the start event's template is "{span_name} started", a default
/// completion's "{span_name} completed", a macro completion's the site's own template ("s4 {x}", ...).
pub const TPL_NEEDLES: [&str; 6] = ["started", "completed", "s4", "s1", "{x}", "a-"];

/// The filter is part of the generated case. Its verdict may depend on what distinguishes a span's START
/// event from its COMPLETION event (level, extent, err, template) or on how often it was consulted.
#[derive(Serialize, Deserialize, Debug, Clone, PartialEq)]
pub enum FilterSpec {
    AcceptAll,
    RejectAll,
    /// accepts events whose level is at least LEVELS[i]; an event without a level counts as info
    MinLevel(u8),
    /// accepts only events without an extent
    NoExtentOnly,
    /// accepts only the first n evaluations
    FirstN(u8),
    /// rejects events that carry `err`
    NoErr,
    /// (needle, accept_if_contains): keyed on the template text
    Tpl(u8, bool),
    /// kind-based routing (`emit::kind::is_span_filter`-like): accepts only events whose `evt_kind`, read by keyed
    /// lookup, is `span`
    SpanKindOnly,
}

/// What a filter can see of an event that differs between a span's start and its completion.
#[derive(Debug, Clone, PartialEq)]
pub struct Feat {
    pub lvl: Option<emit::Level>,
    pub has_extent: bool,
    pub has_err: bool,
    pub tpl: String,
    /// `pull::<Kind>("evt_kind") == Some(Kind::Span)` (keyed lookup)
    pub is_span: bool,
    /// `get("span_name")` rendered (keyed lookup)
    pub name: Option<String>,
}

impl FilterSpec {
    /// The verdict of this filter on an event with features `f` at its `nth` evaluation (0-based).
    pub fn verdict(&self, f: &Feat, nth: usize) -> bool {
        match self {
            FilterSpec::AcceptAll => true,
            FilterSpec::RejectAll => false,
            FilterSpec::MinLevel(i) => lvl_rank(f.lvl.unwrap_or(emit::Level::Info)) >= (*i as usize % 4),
            FilterSpec::NoExtentOnly => !f.has_extent,
            FilterSpec::FirstN(n) => nth < *n as usize,
            FilterSpec::NoErr => !f.has_err,
            FilterSpec::Tpl(needle, accept_if) => f.tpl.contains(TPL_NEEDLES[*needle as usize % TPL_NEEDLES.len()]) == *accept_if,
            FilterSpec::SpanKindOnly => f.is_span,
        }
    }

    /// false for the two constant filters
    pub fn is_event_dependent(&self) -> bool {
        !matches!(self, FilterSpec::AcceptAll | FilterSpec::RejectAll)
    }
}

// ---- the property-key alphabet ---------------------------------------------------------------------
//
// Keys a span's own properties (the `span_props` of `SpanGuard::new`, `with_props`, `map_props`) may use.
// Indices 0..6 are plain user keys; the rest COLLIDE with emit's well-known keys:
//   6, 7    the span's own keys (`Span` yields them itself, before its properties)
//   8, 9    keys a completion may add (`lvl`, `err`)
//   10..13  keys of the span context in the ambient frame (ids)
//   13..    keys that name event metadata / metric fields; on a span they are ordinary properties
pub const KEYS: [&str; 21] = [
    "a",
    "b",
    "c",
    "k0",
    "k1",
    "user_id",
    "span_name",
    "evt_kind",
    "lvl",
    "err",
    "trace_id",
    "span_id",
    "span_parent",
    "ts",
    "ts_start",
    "mdl",
    "tpl",
    "msg",
    "metric_name",
    "metric_agg",
    "metric_value",
];
pub const N_PLAIN_KEYS: usize = 6;

pub fn is_reserved_key(k: &str) -> bool {
    KEYS[N_PLAIN_KEYS..].contains(&k)
}

pub fn is_own_key(k: &str) -> bool {
    k == "span_name" || k == "evt_kind"
}

pub fn is_id_key(k: &str) -> bool {
    k == "trace_id" || k == "span_id" || k == "span_parent"
}

/// A generated property value: plain keys carry integers; colliding keys carry either an integer or a string that
/// looks like a legitimate value of that well-known key (another name, another kind, a level, a well-formed id).
#[derive(Debug, Clone, Copy, PartialEq)]
pub enum PVal {
    Int(i64),
    Str(&'static str),
}

const V_NAME: [&str; 4] = ["stale", "op", "renamed", ""];
const V_KIND: [&str; 4] = ["metric", "span", "stale", "Span"];
const V_LVL: [&str; 4] = ["debug", "info", "warn", "error"];
const V_ERR: [&str; 4] = ["user-err", "panicked", "a-err", "stale"];
const V_TRACE: [&str; 4] = ["0123456789abcdef0123456789abcdef", "stale", "fedcba9876543210fedcba9876543210", "89abcdef0123456789abcdef01234567"];
const V_SPAN: [&str; 4] = ["0123456789abcdef", "stale", "fedcba9876543210", "89abcdef01234567"];
const V_OTHER: [&str; 4] = ["stale", "x", "2024-01-01T00:00:00Z", "sum"];

pub fn key_of(k: u8) -> &'static str {
    KEYS[k as usize % KEYS.len()]
}

pub fn val_of(k: u8, v: i8) -> PVal {
    let key = key_of(k);
    if !is_reserved_key(key) {
        return PVal::Int(v as i64);
    }
    let u = v as u8 as usize % 5;
    if u == 4 {
        return PVal::Int(v as i64);
    }
    PVal::Str(match key {
        "span_name" => V_NAME[u],
        "evt_kind" => V_KIND[u],
        "lvl" => V_LVL[u],
        "err" => V_ERR[u],
        "trace_id" => V_TRACE[u],
        "span_id" | "span_parent" => V_SPAN[u],
        _ => V_OTHER[u],
    })
}

impl PVal {
    pub fn text(&self) -> String {
        match self {
            PVal::Int(i) => i.to_string(),
            PVal::Str(s) => s.to_string(),
        }
    }

    pub fn value(&self) -> emit::Value<'static> {
        match self {
            PVal::Int(i) => emit::Value::from(*i),
            PVal::Str(s) => emit::Value::from(*s),
        }
    }
}

/// Could `val` be a generated value of an id key? (the real ids are 32 / 16 hex digits drawn from the counter rng,
/// which never produces one of the table entries)
pub fn is_generated_id_val(val: &str) -> bool {
    V_TRACE.contains(&val) || V_SPAN.contains(&val) || (val.len() <= 4 && val.parse::<i8>().is_ok())
}

/// The keys a recorded event is probed for by keyed lookup: the six well-known keys whose outcome the property
/// decides or mentions, plus every other key of `KEYS` the event enumerates (a key the event does not enumerate is
/// not probed).
pub fn probe_keys(enumerated: &[(String, String)]) -> Vec<&'static str> {
    let mut keys = vec!["span_name", "evt_kind", "lvl", "err", "trace_id", "span_id"];
    for k in KEYS {
        if !keys.contains(&k) && enumerated.iter().any(|(ek, _)| ek == k) {
            keys.push(k);
        }
    }
    keys
}

type Views = Vec<(&'static str, Vec<Option<String>>)>;

/// Keyed-lookup views of an event's props: generic, erased, through an `And` chain, through `pull`.
fn views_of<P: Props>(props: &P, keys: &[&'static str]) -> Views {
    use emit::props::ErasedProps;
    let all = |get: &dyn Fn(&'static str) -> Option<String>| -> Vec<Option<String>> { keys.iter().map(|k| get(k)).collect() };
    let erased: &dyn ErasedProps = props;
    vec![
        ("Props::get on the event's props", all(&|k| props.get(k).map(|v| v.to_string()))),
        ("get through &dyn ErasedProps", all(&|k| erased.get(k).map(|v| v.to_string()))),
        ("get on props.and_props(Empty)", all(&|k| props.and_props(emit::Empty).get(k).map(|v| v.to_string()))),
        ("pull::<Value>", all(&|k| props.pull::<emit::Value, _>(k).map(|v| v.to_string()))),
    ]
}

/// Keyed-lookup views of a bare `Span` (what a custom `Completion` is handed).
pub fn span_views<P: Props>(span: &emit::span::Span<P>, keys: &[&'static str]) -> Views {
    let all = |get: &dyn Fn(&'static str) -> Option<String>| -> Vec<Option<String>> { keys.iter().map(|k| get(k)).collect() };
    let erased = span.erase();
    vec![
        ("Props::get on the Span", all(&|k| span.get(k).map(|v| v.to_string()))),
        ("Props::get on Span::erase()", all(&|k| erased.get(k).map(|v| v.to_string()))),
    ]
}

pub struct FilterLog {
    pub spec: FilterSpec,
    /// every evaluation in order: what it was shown, what it answered
    pub evals: Vec<(Feat, bool)>,
}

pub const F_RUNTIME: usize = 0;
pub const F_WHEN: usize = 1;

thread_local! {
    // one isolated ambient context per harness thread (a fresh `ThreadLocalCtxt::new()` per case would
    // leak one thread-local map entry per case); asserted empty at the end of every case
    static CTXT: ThreadLocalCtxt = ThreadLocalCtxt::new();
}

pub fn ctxt() -> ThreadLocalCtxt {
    CTXT.with(|c| *c)
}

/// Number of properties currently live in this thread's harness context (must be 0 between cases).
pub fn ctxt_live_props() -> usize {
    use emit::Ctxt;
    ctxt().with_current(|p| {
        let mut n = 0;
        let _ = p.for_each(|_, _| {
            n += 1;
            ControlFlow::Continue(())
        });
        n
    })
}

pub const BASE_SECS: u64 = 1_700_000_000;

pub fn ts_of(offset_ns: u64) -> Timestamp {
    Timestamp::from_unix(Duration::new(BASE_SECS, 0) + Duration::from_nanos(offset_ns)).expect("in range")
}

pub fn ns_of(ts: &Timestamp) -> u128 {
    ts.to_unix().as_nanos()
}

pub fn ns_abs(offset_ns: u64) -> u128 {
    BASE_SECS as u128 * 1_000_000_000 + offset_ns as u128
}

/// What a completion / emitter observed.
#[derive(Debug, Clone)]
pub struct Rec {
    /// id of the recorder (completion id in domain A; 0 = runtime emitter, others = custom in B)
    pub recorder: u32,
    /// true when the record came out of an `Emitter` (through emit's default completion), false when
    /// it was taken by a custom `Completion` directly from the `Span`
    pub via_emitter: bool,
    pub mdl: String,
    pub tpl: String,
    /// (is_range, start_ns, end_ns); for a point start == end
    pub extent: Option<(bool, u128, u128)>,
    /// every property in enumeration order, rendered with Display
    pub props: Vec<(String, String)>,
    pub lvl: Option<emit::Level>,
    pub lvl_present: bool,
    pub kind_is_span: bool,
    /// ids read from the ambient context at the moment of recording
    pub cur_trace: Option<u128>,
    pub cur_span: Option<u64>,
    pub panicking: bool,
    pub phase: u32,
    /// the keys probed by keyed lookup (`probe_keys`)
    pub probed: Vec<&'static str>,
    /// keyed lookups: (view name, result rendered with Display for every key of `probed`, in that order)
    pub views: Vec<(&'static str, Vec<Option<String>>)>,
    /// `pull::<Str>("span_name")`
    pub name_pulled: Option<String>,
    /// `emit::kind::is_span_filter().matches(evt)` / `is_metric_filter().matches(evt)`
    pub span_filter_matches: bool,
    pub metric_filter_matches: bool,
    /// `Span::name()` (custom completions only)
    pub span_name_accessor: Option<String>,
}

impl Rec {
    pub fn prop(&self, key: &str) -> Option<&str> {
        self.props.iter().find(|(k, _)| k == key).map(|(_, v)| v.as_str())
    }

    /// keyed lookup (generic `Props::get`) of one of `KEYS`
    pub fn keyed(&self, key: &str) -> Option<&str> {
        let i = self.probed.iter().position(|k| *k == key)?;
        self.views.first().and_then(|(_, v)| v[i].as_deref())
    }

    /// Every keyed view of `key` must give `want`; Err((view, got)) for the first one that does not.
    pub fn all_views_give(&self, key: &str, want: Option<&str>) -> Result<(), (&'static str, Option<String>)> {
        let Some(i) = self.probed.iter().position(|k| *k == key) else {
            // not probed = the event does not enumerate it
            return if want.is_none() { Ok(()) } else { Err(("enumeration", None)) };
        };
        for (view, vals) in &self.views {
            if vals[i].as_deref() != want {
                return Err((view, vals[i].clone()));
            }
        }
        Ok(())
    }

    /// same for a key that need not be one of `KEYS` (domain B's `p`, `q`): falls back to the enumeration's first
    /// entry when the key was not probed
    pub fn all_views_give_any(&self, key: &str, want: Option<&str>) -> Result<(), (&'static str, Option<String>)> {
        if KEYS.contains(&key) {
            self.all_views_give(key, want)
        } else if self.prop(key) != want {
            Err(("first entry by enumeration", self.prop(key).map(|s| s.to_string())))
        } else {
            Ok(())
        }
    }

    /// The enumeration with the entries that are NOT the span's own properties taken out, judged by position and
    /// count only (never by key alone, because the span's own properties may use any of these keys):
    /// * the first `evt_kind` and the first `span_name` entry (the span's own kind and name);
    /// * the first `lvl` / `err` entry when the event has more of them than the span's properties `user` do
    ///   (the one a completion added);
    /// * id entries (`trace_id`, `span_id`, `span_parent`) whose value cannot be a generated property value
    ///   (the ambient span context).
    pub fn user_props_given(&self, user: &[(String, String)]) -> Vec<(String, String)> {
        let count = |v: &[(String, String)], key: &str| v.iter().filter(|(k, _)| k == key).count();
        let mut out = Vec::new();
        let mut skip_first: Vec<&str> = vec!["evt_kind", "span_name"];
        for key in ["lvl", "err"] {
            if count(&self.props, key) > count(user, key) {
                skip_first.push(key);
            }
        }
        for (k, v) in &self.props {
            if let Some(i) = skip_first.iter().position(|s| s == k) {
                skip_first.remove(i);
                continue;
            }
            if is_id_key(k) && !is_generated_id_val(v) {
                continue;
            }
            out.push((k.clone(), v.clone()));
        }
        out
    }

    /// the features of this (completion) event as a filter would have seen them
    pub fn feat(&self) -> Feat {
        Feat {
            lvl: self.lvl,
            has_extent: self.extent.is_some(),
            has_err: self.prop("err").is_some(),
            tpl: self.tpl.clone(),
            is_span: self.kind_is_span,
            name: self.keyed("span_name").map(|s| s.to_string()),
        }
    }
}

pub struct St {
    pub recs: RefCell<Vec<Rec>>,
    pub clock_script: Vec<Option<u32>>,
    pub clock_pos: Cell<usize>,
    /// (phase, reading as offset from BASE)
    pub clock_log: RefCell<Vec<(u32, Option<u64>)>>,
    pub phase: Cell<u32>,
    pub rng_avail: bool,
    pub rng_ctr: Cell<u64>,
    /// [runtime filter, `when:` filter]
    pub filters: [RefCell<FilterLog>; 2],
    /// (trace_id, span_id) of every event handed to a filter
    pub filter_seen: RefCell<Vec<(Option<u128>, Option<u64>)>>,
    /// every `trace_id` / `span_id` / `span_parent` entry (by enumeration) of every event handed to a filter
    pub filter_seen_ids: RefCell<Vec<Vec<(String, String)>>>,
    /// domain B: which rename / re-propertying variant the guard sites use
    pub variant: Cell<u32>,
}

impl St {
    pub fn new(filter: FilterSpec, when: FilterSpec, clock_script: Vec<Option<u32>>, rng_avail: bool, rng_seed: u64) -> Rc<St> {
        Rc::new(St {
            recs: RefCell::new(Vec::new()),
            clock_script,
            clock_pos: Cell::new(0),
            clock_log: RefCell::new(Vec::new()),
            phase: Cell::new(0),
            rng_avail,
            rng_ctr: Cell::new(rng_seed | 1),
            filters: [
                RefCell::new(FilterLog { spec: filter, evals: Vec::new() }),
                RefCell::new(FilterLog { spec: when, evals: Vec::new() }),
            ],
            filter_seen: RefCell::new(Vec::new()),
            filter_seen_ids: RefCell::new(Vec::new()),
            variant: Cell::new(0),
        })
    }

    /// readings delivered while the driver was in `phase`
    pub fn readings(&self, phase: u32) -> Vec<Option<u64>> {
        self.clock_log.borrow().iter().filter(|(p, _)| *p == phase).map(|(_, r)| *r).collect()
    }

    pub fn record<P: Props>(&self, recorder: u32, via_emitter: bool, evt: &Event<P>) {
        let mut props = Vec::new();
        let _ = evt.props().for_each(|k, v| {
            props.push((k.to_string(), v.to_string()));
            ControlFlow::Continue(())
        });
        let extent = evt.extent().map(|e| match e.as_range() {
            Some(r) => (true, ns_of(&r.start), ns_of(&r.end)),
            None => (false, ns_of(e.as_point()), ns_of(e.as_point())),
        });
        let cur = emit::span::SpanCtxt::current(ctxt());
        let probed = probe_keys(&props);
        let rec = Rec {
            recorder,
            via_emitter,
            mdl: evt.mdl().to_string(),
            tpl: evt.tpl().to_string(),
            extent,
            lvl: evt.props().pull::<emit::Level, _>("lvl"),
            lvl_present: evt.props().get("lvl").is_some(),
            kind_is_span: evt.props().pull::<emit::Kind, _>("evt_kind") == Some(emit::Kind::Span),
            views: {
                let mut views = views_of(evt.props(), &probed);
                let erased = evt.erase();
                views.push(("get on Event::erase().props()", probed.iter().map(|k| erased.props().get(*k).map(|v| v.to_string())).collect()));
                views
            },
            probed,
            props,
            cur_trace: cur.trace_id().map(|t| t.to_u128()),
            cur_span: cur.span_id().map(|s| s.to_u64()),
            panicking: std::thread::panicking(),
            phase: self.phase.get(),
            name_pulled: evt.props().pull::<emit::Str, _>("span_name").map(|s| s.to_string()),
            span_filter_matches: emit::kind::is_span_filter().matches(evt),
            metric_filter_matches: emit::kind::is_metric_filter().matches(evt),
            span_name_accessor: None,
        };
        self.recs.borrow_mut().push(rec);
    }

    /// `Span::name()` as seen by a custom completion
    pub fn add_span_name(&self, name: String) {
        if let Some(r) = self.recs.borrow_mut().last_mut() {
            r.span_name_accessor = Some(name);
        }
    }

    /// add the keyed views of the bare span to the record that was just taken of its event
    pub fn add_span_views<P: Props>(&self, span: &emit::span::Span<P>) {
        if let Some(r) = self.recs.borrow_mut().last_mut() {
            let more = span_views(span, &r.probed);
            r.views.extend(more);
        }
    }
}

/// Scripted clock: one script entry per `now()` call; `None` entries (and everything after the end of
/// the script) are "reading unavailable".
#[derive(Clone)]
pub struct ClockH(pub Rc<St>);

impl Clock for ClockH {
    fn now(&self) -> Option<Timestamp> {
        let st = &self.0;
        let pos = st.clock_pos.get();
        st.clock_pos.set(pos + 1);
        let reading = st.clock_script.get(pos).copied().flatten().map(|v| v as u64);
        st.clock_log.borrow_mut().push((st.phase.get(), reading));
        reading.map(ts_of)
    }
}

/// Counter rng (never repeats, never zero) or an unavailable one.
#[derive(Clone)]
pub struct RngH(pub Rc<St>);

impl Rng for RngH {
    fn fill<A: AsMut<[u8]>>(&self, mut arr: A) -> Option<A> {
        if !self.0.rng_avail {
            return None;
        }
        for chunk in arr.as_mut().chunks_mut(8) {
            let v = self.0.rng_ctr.get();
            self.0.rng_ctr.set(v.wrapping_add(2));
            let b = v.to_le_bytes();
            let n = chunk.len();
            chunk.copy_from_slice(&b[..n]);
        }
        Some(arr)
    }
}

/// The generated filter (`which` = F_RUNTIME or F_WHEN); logs every evaluation and the ids it was shown.
#[derive(Clone)]
pub struct SpecFilter {
    pub which: usize,
    pub st: Rc<St>,
}

impl Filter for SpecFilter {
    fn matches<E: ToEvent>(&self, evt: E) -> bool {
        let evt = evt.to_event();
        let t = evt.props().pull::<emit::TraceId, _>("trace_id").map(|t| t.to_u128());
        let s = evt.props().pull::<emit::SpanId, _>("span_id").map(|s| s.to_u64());
        self.st.filter_seen.borrow_mut().push((t, s));
        let mut ids = Vec::new();
        let _ = evt.props().for_each(|k, v| {
            if is_id_key(k.get()) {
                ids.push((k.to_string(), v.to_string()));
            }
            ControlFlow::Continue(())
        });
        self.st.filter_seen_ids.borrow_mut().push(ids);
        let feat = Feat {
            lvl: evt.props().pull::<emit::Level, _>("lvl"),
            has_extent: evt.extent().is_some(),
            has_err: evt.props().get("err").is_some(),
            tpl: evt.tpl().to_string(),
            is_span: evt.props().pull::<emit::Kind, _>("evt_kind") == Some(emit::Kind::Span),
            name: evt.props().get("span_name").map(|v| v.to_string()),
        };
        let mut log = self.st.filters[self.which].borrow_mut();
        let verdict = log.spec.verdict(&feat, log.evals.len());
        log.evals.push((feat, verdict));
        verdict
    }
}

#[derive(Clone)]
pub struct RecEmitter {
    pub id: u32,
    pub st: Rc<St>,
}

impl Emitter for RecEmitter {
    fn emit<E: ToEvent>(&self, evt: E) {
        let evt = evt.to_event();
        self.st.record(self.id, true, &evt);
    }

    fn blocking_flush(&self, _: Duration) -> bool {
        true
    }
}

pub type Rt = emit::runtime::Runtime<RecEmitter, SpecFilter, ThreadLocalCtxt, ClockH, RngH>;

/// An explicit runtime over the case's recording components; its emitter records as `emitter_id`.
pub fn build_rt(st: &Rc<St>, emitter_id: u32) -> Rt {
    emit::runtime::Runtime::build(
        RecEmitter { id: emitter_id, st: st.clone() },
        SpecFilter { which: F_RUNTIME, st: st.clone() },
        ctxt(),
        ClockH(st.clone()),
        RngH(st.clone()),
    )
}

/// The extent clause of the property, shared by both domains.
///
/// `start` / `end` are the clock readings delivered while the span was being started / completed.
/// Returns Err(description) on a violation, Ok(true) when the outcome was one the property leaves open.
pub fn judge_extent(extent: Option<(bool, u128, u128)>, start: &[Option<u64>], end: &[Option<u64>]) -> Result<bool, String> {
    let some = |v: &[Option<u64>]| v.iter().flatten().map(|o| ns_abs(*o)).collect::<Vec<u128>>();
    let (s_some, e_some) = (some(start), some(end));
    let s_all = !start.is_empty() && s_some.len() == start.len();
    let e_all = !end.is_empty() && e_some.len() == end.len();
    match extent {
        Some((true, a, b)) => {
            if !s_some.contains(&a) {
                return Err(format!("range start {a} is not the reading taken at start {start:?}"));
            }
            if !e_some.contains(&b) {
                return Err(format!("range end {b} is not the reading taken at completion {end:?}"));
            }
            Ok(false)
        }
        Some((false, p, _)) => {
            if s_all && e_all {
                Err(format!("point extent {p} although the clock provided start {start:?} and end {end:?}"))
            } else {
                Ok(true)
            }
        }
        None => {
            if s_all && e_all {
                Err(format!("no extent although the clock provided start {start:?} and end {end:?}"))
            } else {
                // end unavailable: `Timer::extent` documents None; start unavailable: left open
                Ok(!(e_some.is_empty()))
            }
        }
    }
}
