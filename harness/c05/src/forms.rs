//! Domain B: the macro forms. Every form is a fixed call site (a function compiled with the real
//! attribute macro) against an explicit runtime; the filter verdict, the clock script, the rng and the
//! exit path are chosen at run time by the generated case.

use std::future::Future;
use std::panic::{catch_unwind, AssertUnwindSafe};
use std::pin::Pin;
use std::rc::Rc;
use std::task::{Context, Poll, Waker};

use emit::span::completion::Completion;
use emit::span::Span;
use emit::Props;
use serde::{Deserialize, Serialize};
use vcore::{pick, vassert, vassert_eq, Cx, Res};

use crate::rec::*;

pub const PH_BEGIN: u32 = 0;
pub const PH_BODY: u32 = 1;
pub const PH_END: u32 = 2;
pub const PH_AFTER: u32 = 3;

pub const CUSTOM_ID: u32 = 77;

#[derive(Clone, Copy, PartialEq, Eq, Debug)]
pub enum Exit {
    /// run to the end of the body (Ok for Result-returning sites)
    Fall,
    /// `return` (resp. `return Ok(..)`) from the middle of the body
    EarlyReturn,
    /// `return Err(..)` from the middle
    ReturnErr,
    /// `?` applied to an Err
    QuestionErr,
    /// Err as the tail expression
    TailErr,
    Panic,
    /// async only: the future is dropped at its suspension point
    CancelAtYield,
    // guard-parameter sites
    GComplete,
    GCompleteWith,
    GWithCompletion,
    GRename,
    GDropEarly,
    GCompleteThenPanic,
    // new_span! site
    NsStartDrop,
    NsNoStart,
    NsStartTwiceComplete,
}

#[derive(Debug)]
pub struct MyErr(pub &'static str);

impl std::fmt::Display for MyErr {
    fn fmt(&self, f: &mut std::fmt::Formatter<'_>) -> std::fmt::Result {
        write!(f, "myerr:{}", self.0)
    }
}

impl std::error::Error for MyErr {}

/// An error type that is not `std::error::Error` (needs the `err` mapper).
#[derive(Debug)]
pub struct Opaque(pub &'static str);

fn fail(tag: &'static str) -> Result<(), MyErr> {
    Err(MyErr(tag))
}

fn fail_opaque(tag: &'static str) -> Result<(), Opaque> {
    Err(Opaque(tag))
}

/// What a site returned to its caller.
#[derive(Debug, PartialEq, Eq, Clone)]
pub enum Ret {
    Unit,
    Ok(i32),
    Err(String),
    /// bool returned by an explicit `complete*` inside a guard site
    Completed(bool),
}

struct YieldOnce(bool);

impl Future for YieldOnce {
    type Output = ();
    fn poll(mut self: Pin<&mut Self>, _: &mut Context<'_>) -> Poll<()> {
        if self.0 {
            Poll::Ready(())
        } else {
            self.0 = true;
            Poll::Pending
        }
    }
}

macro_rules! unit_body {
    ($st:expr, $exit:expr) => {{
        $st.phase.set(PH_BODY);
        match $exit {
            Exit::EarlyReturn => {
                $st.phase.set(PH_END);
                return;
            }
            Exit::Panic => {
                $st.phase.set(PH_END);
                panic!("c05: scripted panic in span body");
            }
            _ => {}
        }
        $st.phase.set(PH_END);
    }};
}

macro_rules! result_body {
    ($st:expr, $exit:expr, $x:expr, $err:ident, $fail:ident) => {{
        $st.phase.set(PH_BODY);
        match $exit {
            Exit::EarlyReturn => {
                $st.phase.set(PH_END);
                return Ok($x);
            }
            Exit::ReturnErr => {
                $st.phase.set(PH_END);
                return Err($err("return"));
            }
            Exit::QuestionErr => {
                $st.phase.set(PH_END);
                $fail("question")?;
            }
            Exit::Panic => {
                $st.phase.set(PH_END);
                panic!("c05: scripted panic in span body");
            }
            _ => {}
        }
        $st.phase.set(PH_END);
        if $exit == Exit::TailErr {
            Err($err("tail"))
        } else {
            Ok($x)
        }
    }};
}

// ---- the call sites -----------------------------------------------------------------------------

#[emit::span(rt: rt, "s0 {x}")]
fn s0(rt: &Rt, st: &St, exit: Exit, x: i32) {
    unit_body!(st, exit)
}

#[emit::span(rt: rt, "s1 {x}")]
async fn s1(rt: &Rt, st: &St, exit: Exit, x: i32) {
    st.phase.set(PH_BODY);
    YieldOnce(false).await;
    unit_body!(st, exit)
}

#[emit::span(rt: rt, panic_lvl: emit::Level::Warn, "s2")]
fn s2(rt: &Rt, st: &St, exit: Exit) {
    unit_body!(st, exit)
}

#[emit::info_span(rt: rt, "s3 {x}")]
fn s3(rt: &Rt, st: &St, exit: Exit, x: i32) {
    unit_body!(st, exit)
}

#[emit::span(rt: rt, ok_lvl: emit::Level::Info, "s4 {x}")]
fn s4(rt: &Rt, st: &St, exit: Exit, x: i32) -> Result<i32, MyErr> {
    result_body!(st, exit, x, MyErr, fail)
}

#[emit::span(rt: rt, err_lvl: "warn", "s5")]
fn s5(rt: &Rt, st: &St, exit: Exit, x: i32) -> Result<i32, MyErr> {
    result_body!(st, exit, x, MyErr, fail)
}

#[emit::span(rt: rt, ok_lvl: emit::Level::Debug, err_lvl: emit::Level::Warn, panic_lvl: emit::Level::Info, "s6 {x}")]
async fn s6(rt: &Rt, st: &St, exit: Exit, x: i32) -> Result<i32, MyErr> {
    st.phase.set(PH_BODY);
    YieldOnce(false).await;
    result_body!(st, exit, x, MyErr, fail)
}

#[emit::span(rt: rt, err: (|_: &Opaque| "mapped"), "s7")]
fn s7(rt: &Rt, st: &St, exit: Exit, x: i32) -> Result<i32, Opaque> {
    result_body!(st, exit, x, Opaque, fail_opaque)
}

#[emit::warn_span(rt: rt, ok_lvl: emit::Level::Debug, "s8")]
fn s8(rt: &Rt, st: &St, exit: Exit, x: i32) -> Result<i32, MyErr> {
    result_body!(st, exit, x, MyErr, fail)
}

#[emit::error_span(rt: rt, err_lvl: emit::Level::Info, "s9")]
async fn s9(rt: &Rt, st: &St, exit: Exit, x: i32) -> Result<i32, MyErr> {
    st.phase.set(PH_BODY);
    YieldOnce(false).await;
    result_body!(st, exit, x, MyErr, fail)
}

#[emit::debug_span(rt: rt, mdl: emit::path!("custom::mdl"), "s10")]
async fn s10(rt: &Rt, st: &St, exit: Exit) {
    st.phase.set(PH_BODY);
    YieldOnce(false).await;
    unit_body!(st, exit)
}

/// a plain span on a Result-returning function: no Result-aware completion is configured
#[emit::span(rt: rt, "s11")]
fn s11(rt: &Rt, st: &St, exit: Exit, x: i32) -> Result<i32, MyErr> {
    result_body!(st, exit, x, MyErr, fail)
}

pub struct Custom(pub Rc<St>);

impl Completion for Custom {
    fn complete<P: Props>(&self, span: Span<P>) {
        use emit::event::ToEvent;
        let evt = span.to_event();
        self.0.record(CUSTOM_ID, false, &evt);
    }
}

/// keys of the two properties the `GRename` exit installs (`with_props`, then `map_props` appends the second)
pub const RKEYS: [&str; 8] = ["p", "q", "span_name", "evt_kind", "lvl", "err", "trace_id", "span_id"];
const RV1: [&str; 8] = ["7", "8", "stale", "metric", "debug", "user-err", "0123456789abcdef0123456789abcdef", "0123456789abcdef"];
const RV2: [&str; 8] = ["70", "80", "renamed", "Metric", "warn", "stale", "fedcba9876543210fedcba9876543210", "fedcba9876543210"];

/// (key 1, value 1, key 2, value 2, rename before re-propertying)
pub fn rename_variant(v: u32) -> (&'static str, &'static str, &'static str, &'static str, bool) {
    let (a, b) = (v as usize % 8, (v as usize / 8) % 8);
    (RKEYS[a], RV1[a], RKEYS[b], RV2[b], (v / 64) % 2 == 0)
}

macro_rules! guard_body {
    ($st:expr, $strc:expr, $exit:expr, $g:ident) => {{
        $st.phase.set(PH_BODY);
        let ret = match $exit {
            Exit::GComplete => {
                $st.phase.set(PH_END);
                let r = $g.complete();
                $st.phase.set(PH_AFTER);
                Ret::Completed(r)
            }
            Exit::GCompleteWith => {
                $st.phase.set(PH_END);
                let r = $g.complete_with(Custom($strc.clone()));
                $st.phase.set(PH_AFTER);
                Ret::Completed(r)
            }
            Exit::GWithCompletion => {
                let g2 = $g.with_completion(Custom($strc.clone()));
                $st.phase.set(PH_END);
                let r = g2.is_enabled();
                drop(g2);
                $st.phase.set(PH_AFTER);
                Ret::Completed(r)
            }
            Exit::GRename => {
                // which two properties (plain, or colliding with a well-known key) and whether the rename comes
                // before or after the re-propertying is part of the case
                let (k1, v1, k2, v2, name_first) = rename_variant($st.variant.get());
                let g2 = if name_first {
                    $g.with_name("renamed")
                        .with_mdl(emit::path!("renamed::mdl"))
                        .with_props((k1, v1))
                        .map_props(|p| p.and_props((k2, v2)))
                } else {
                    $g.with_props((k1, v1))
                        .map_props(|p| p.and_props((k2, v2)))
                        .with_mdl(emit::path!("renamed::mdl"))
                        .with_name("renamed")
                };
                $st.phase.set(PH_END);
                drop(g2);
                $st.phase.set(PH_AFTER);
                Ret::Unit
            }
            Exit::GDropEarly => {
                $st.phase.set(PH_END);
                drop($g);
                $st.phase.set(PH_AFTER);
                Ret::Unit
            }
            Exit::GCompleteThenPanic => {
                $st.phase.set(PH_END);
                let _ = $g.complete();
                $st.phase.set(PH_AFTER);
                panic!("c05: scripted panic after explicit completion");
            }
            Exit::Panic => {
                let _held = $g;
                $st.phase.set(PH_END);
                panic!("c05: scripted panic in span body");
            }
            _ => {
                // Fall: the guard is dropped at the end of the body
                let _held = $g;
                $st.phase.set(PH_END);
                Ret::Unit
            }
        };
        ret
    }};
}

#[emit::span(rt: rt, guard: g, "s12 {x}")]
fn s12(rt: &Rt, st: &St, strc: &Rc<St>, exit: Exit, x: i32) -> Ret {
    guard_body!(st, strc, exit, g)
}

#[emit::span(rt: rt, guard: g, panic_lvl: "warn", "s13")]
async fn s13(rt: &Rt, st: &St, strc: &Rc<St>, exit: Exit) -> Ret {
    st.phase.set(PH_BODY);
    YieldOnce(false).await;
    guard_body!(st, strc, exit, g)
}

/// `new_span!`: guard and frame handled by hand
fn s14(rt: &Rt, st: &St, exit: Exit, x: i32) -> Ret {
    let (mut guard, frame) = emit::new_info_span!(rt: rt, "s14 {x}");
    frame.call(move || {
        match exit {
            Exit::NsNoStart => {}
            Exit::NsStartTwiceComplete => {
                guard.start();
                st.phase.set(PH_BODY);
                guard.start();
            }
            _ => guard.start(),
        }
        st.phase.set(PH_BODY);
        match exit {
            Exit::NsStartTwiceComplete => {
                st.phase.set(PH_END);
                let r = guard.complete();
                st.phase.set(PH_AFTER);
                Ret::Completed(r)
            }
            Exit::Panic => {
                st.phase.set(PH_END);
                let _held = guard;
                panic!("c05: scripted panic in span body");
            }
            _ => {
                st.phase.set(PH_END);
                drop(guard);
                st.phase.set(PH_AFTER);
                Ret::Unit
            }
        }
    })
}

// ---- sites with a call-site `when:` filter (it replaces the runtime's filter for the start decision) ----

#[emit::span(rt: rt, when: wf, ok_lvl: emit::Level::Info, "s15 {x}")]
fn s15(rt: &Rt, wf: &SpecFilter, st: &St, exit: Exit, x: i32) -> Result<i32, MyErr> {
    result_body!(st, exit, x, MyErr, fail)
}

#[emit::info_span(rt: rt, when: wf, err_lvl: emit::Level::Warn, "s16")]
async fn s16(rt: &Rt, wf: &SpecFilter, st: &St, exit: Exit, x: i32) -> Result<i32, MyErr> {
    st.phase.set(PH_BODY);
    YieldOnce(false).await;
    result_body!(st, exit, x, MyErr, fail)
}

#[emit::span(rt: rt, when: wf, "s17 {x}")]
fn s17(rt: &Rt, wf: &SpecFilter, st: &St, exit: Exit, x: i32) {
    unit_body!(st, exit)
}

#[emit::span(rt: rt, when: wf, guard: g, panic_lvl: emit::Level::Info, "s18")]
fn s18(rt: &Rt, wf: &SpecFilter, st: &St, strc: &Rc<St>, exit: Exit) -> Ret {
    guard_body!(st, strc, exit, g)
}

/// a guard site whose MACRO properties (they travel in the span's frame) are called like the span's own keys
#[emit::span(rt: rt, guard: g, "s19 {x}", span_name: "stale", evt_kind: "metric")]
fn s19(rt: &Rt, st: &St, strc: &Rc<St>, exit: Exit, x: i32) -> Ret {
    guard_body!(st, strc, exit, g)
}

// ---- site table ------------------------------------------------------------------------------------

#[derive(Clone, Copy, PartialEq, Eq, Debug)]
pub enum Shape {
    Unit,
    Result,
    Guard,
    NewSpan,
}

pub struct Site {
    pub name: &'static str,
    pub tpl: &'static str,
    pub mdl: &'static str,
    pub is_async: bool,
    pub shape: Shape,
    pub has_x: bool,
    pub default_lvl: Option<emit::Level>,
    pub ok_lvl: Option<emit::Level>,
    pub err_lvl: Option<emit::Level>,
    pub panic_lvl: Option<emit::Level>,
    /// ok_lvl / err_lvl / err given => the macro generates the Result-aware completion
    pub result_completion: bool,
    pub err_mapped: bool,
    /// the site passes `when: <the case's second filter>`
    pub has_when: bool,
    /// literal properties given to the macro after the template (carried by the span's frame)
    pub extra: &'static [(&'static str, &'static str)],
}

const HERE: &str = module_path!();

const fn site(name: &'static str, tpl: &'static str, is_async: bool, shape: Shape, has_x: bool) -> Site {
    Site {
        name,
        tpl,
        mdl: HERE,
        is_async,
        shape,
        has_x,
        default_lvl: None,
        ok_lvl: None,
        err_lvl: None,
        panic_lvl: None,
        result_completion: false,
        err_mapped: false,
        has_when: false,
        extra: &[],
    }
}

use emit::Level::{Debug as D, Error as E, Info as I, Warn as W};

pub const SITES: [Site; 20] = [
    site("span/sync-fn", "s0 {x}", false, Shape::Unit, true),
    site("span/async-fn", "s1 {x}", true, Shape::Unit, true),
    Site { panic_lvl: Some(W), ..site("span/sync-fn/panic_lvl", "s2", false, Shape::Unit, false) },
    Site { default_lvl: Some(I), ..site("info_span/sync-fn", "s3 {x}", false, Shape::Unit, true) },
    Site { ok_lvl: Some(I), result_completion: true, ..site("span/sync-fn/ok_lvl", "s4 {x}", false, Shape::Result, true) },
    Site { err_lvl: Some(W), result_completion: true, ..site("span/sync-fn/err_lvl-str", "s5", false, Shape::Result, false) },
    Site {
        ok_lvl: Some(D),
        err_lvl: Some(W),
        panic_lvl: Some(I),
        result_completion: true,
        ..site("span/async-fn/ok_lvl+err_lvl+panic_lvl", "s6 {x}", true, Shape::Result, true)
    },
    Site { result_completion: true, err_mapped: true, ..site("span/sync-fn/err-mapper", "s7", false, Shape::Result, false) },
    Site { default_lvl: Some(W), ok_lvl: Some(D), result_completion: true, ..site("warn_span/sync-fn/ok_lvl", "s8", false, Shape::Result, false) },
    Site { default_lvl: Some(E), err_lvl: Some(I), result_completion: true, ..site("error_span/async-fn/err_lvl", "s9", true, Shape::Result, false) },
    Site { default_lvl: Some(D), mdl: "custom::mdl", ..site("debug_span/async-fn/mdl", "s10", true, Shape::Unit, false) },
    site("span/sync-fn/result-without-result-params", "s11", false, Shape::Result, false),
    site("span/sync-fn/guard", "s12 {x}", false, Shape::Guard, true),
    Site { panic_lvl: Some(W), ..site("span/async-fn/guard+panic_lvl", "s13", true, Shape::Guard, false) },
    Site { default_lvl: Some(I), ..site("new_info_span", "s14 {x}", false, Shape::NewSpan, true) },
    Site { ok_lvl: Some(I), result_completion: true, has_when: true, ..site("span/sync-fn/when+ok_lvl", "s15 {x}", false, Shape::Result, true) },
    Site { default_lvl: Some(I), err_lvl: Some(W), result_completion: true, has_when: true, ..site("info_span/async-fn/when+err_lvl", "s16", true, Shape::Result, false) },
    Site { has_when: true, ..site("span/sync-fn/when", "s17 {x}", false, Shape::Unit, true) },
    Site { panic_lvl: Some(I), has_when: true, ..site("span/sync-fn/when+guard+panic_lvl", "s18", false, Shape::Guard, false) },
    Site { extra: &[("span_name", "stale"), ("evt_kind", "metric")], ..site("span/sync-fn/guard+props-named-span_name-evt_kind", "s19 {x}", false, Shape::Guard, true) },
];

pub fn exits_of(site: &Site) -> Vec<Exit> {
    let mut v = match site.shape {
        Shape::Unit => vec![Exit::Fall, Exit::EarlyReturn, Exit::Panic],
        Shape::Result => vec![Exit::Fall, Exit::EarlyReturn, Exit::ReturnErr, Exit::QuestionErr, Exit::TailErr, Exit::Panic],
        Shape::Guard => vec![
            Exit::Fall,
            Exit::Panic,
            Exit::GComplete,
            Exit::GCompleteWith,
            Exit::GWithCompletion,
            Exit::GRename,
            Exit::GDropEarly,
            Exit::GCompleteThenPanic,
        ],
        Shape::NewSpan => vec![Exit::NsStartDrop, Exit::NsNoStart, Exit::NsStartTwiceComplete, Exit::Panic],
    };
    if site.is_async {
        v.push(Exit::CancelAtYield);
    }
    v
}

#[derive(Serialize, Deserialize, Debug, Clone)]
pub struct CaseB {
    pub site: u8,
    pub exit: u32,
    /// the runtime's filter
    pub filter: FilterSpec,
    /// the filter passed as `when:` by the sites that have that parameter
    pub when: FilterSpec,
    pub rng_avail: bool,
    pub rng_seed: u32,
    pub clock: Vec<Option<u32>>,
    pub x: i32,
    /// guard sites, `GRename` exit: which properties are installed and in which order (see `rename_variant`)
    #[serde(default)]
    pub rename: u8,
}

/// Poll a future to completion on this thread. Ok(Some(v)) = finished, Ok(None) = dropped at its first
/// suspension point (cancel), Err = a panic unwound out of `poll`.
fn drive<F: Future>(st: &St, fut: F, cancel: bool) -> Result<Option<F::Output>, ()> {
    let mut fut = Box::pin(fut);
    let mut cx = Context::from_waker(Waker::noop());
    let r = catch_unwind(AssertUnwindSafe(|| loop {
        match fut.as_mut().poll(&mut cx) {
            Poll::Ready(v) => return Some(v),
            Poll::Pending => {
                if cancel {
                    return None;
                }
            }
        }
    }));
    if let Ok(None) = r {
        // the future is dropped here, outside `poll`: the span leaves scope outside its frame
        st.phase.set(PH_END);
    }
    drop(fut);
    r.map_err(|_| ())
}

fn sync_call<R>(f: impl FnOnce() -> R) -> Result<Option<R>, ()> {
    catch_unwind(AssertUnwindSafe(f)).map(Some).map_err(|_| ())
}

fn ret_of(r: Result<i32, String>) -> Ret {
    match r {
        Ok(v) => Ret::Ok(v),
        Err(e) => Ret::Err(e),
    }
}

pub fn check_form(c: &CaseB, cx: &mut Cx) -> Res {
    let site_ix = c.site as usize % SITES.len();
    let site = &SITES[site_ix];
    let exits = exits_of(site);
    let exit = exits[pick(c.exit, exits.len())];
    let st = St::new(c.filter.clone(), c.when.clone(), c.clock.clone(), c.rng_avail, c.rng_seed as u64);
    let rt: Rt = build_rt(&st, 0);
    let wf = SpecFilter { which: F_WHEN, st: st.clone() };
    let cancel = exit == Exit::CancelAtYield;
    let x = c.x;
    st.phase.set(PH_BEGIN);
    st.variant.set(c.rename as u32);
    let s: &St = &st;
    let out: Result<Option<Ret>, ()> = match site_ix {
        0 => sync_call(|| s0(&rt, s, exit, x)).map(|o| o.map(|_| Ret::Unit)),
        1 => drive(s, s1(&rt, s, exit, x), cancel).map(|o| o.map(|_| Ret::Unit)),
        2 => sync_call(|| s2(&rt, s, exit)).map(|o| o.map(|_| Ret::Unit)),
        3 => sync_call(|| s3(&rt, s, exit, x)).map(|o| o.map(|_| Ret::Unit)),
        4 => sync_call(|| s4(&rt, s, exit, x)).map(|o| o.map(|r| ret_of(r.map_err(|e| e.to_string())))),
        5 => sync_call(|| s5(&rt, s, exit, x)).map(|o| o.map(|r| ret_of(r.map_err(|e| e.to_string())))),
        6 => drive(s, s6(&rt, s, exit, x), cancel).map(|o| o.map(|r| ret_of(r.map_err(|e| e.to_string())))),
        7 => sync_call(|| s7(&rt, s, exit, x)).map(|o| o.map(|r| ret_of(r.map_err(|e| format!("opaque:{}", e.0))))),
        8 => sync_call(|| s8(&rt, s, exit, x)).map(|o| o.map(|r| ret_of(r.map_err(|e| e.to_string())))),
        9 => drive(s, s9(&rt, s, exit, x), cancel).map(|o| o.map(|r| ret_of(r.map_err(|e| e.to_string())))),
        10 => drive(s, s10(&rt, s, exit), cancel).map(|o| o.map(|_| Ret::Unit)),
        11 => sync_call(|| s11(&rt, s, exit, x)).map(|o| o.map(|r| ret_of(r.map_err(|e| e.to_string())))),
        12 => sync_call(|| s12(&rt, s, &st, exit, x)),
        13 => drive(s, s13(&rt, s, &st, exit), cancel),
        14 => sync_call(|| s14(&rt, s, exit, x)),
        15 => sync_call(|| s15(&rt, &wf, s, exit, x)).map(|o| o.map(|r| ret_of(r.map_err(|e| e.to_string())))),
        16 => drive(s, s16(&rt, &wf, s, exit, x), cancel).map(|o| o.map(|r| ret_of(r.map_err(|e| e.to_string())))),
        17 => sync_call(|| s17(&rt, &wf, s, exit, x)).map(|o| o.map(|_| Ret::Unit)),
        18 => sync_call(|| s18(&rt, &wf, s, &st, exit)),
        _ => sync_call(|| s19(&rt, s, &st, exit, x)),
    };
    st.phase.set(PH_AFTER + 1);

    // ---- expectations ---------------------------------------------------------------------------
    // "passed the filter" = the verdict of the deciding filter (`when:` if the site has one, else the
    // runtime's) on the span's START event: the macro's own level, no extent, no err, "{span_name} started"
    let start_feat = Feat {
        lvl: site.default_lvl,
        has_extent: false,
        has_err: false,
        tpl: "{span_name} started".to_string(),
        is_span: true,
        name: Some(site.tpl.to_string()),
    };
    let (deciding, deciding_spec) = if site.has_when { (F_WHEN, &c.when) } else { (F_RUNTIME, &c.filter) };
    let enabled = deciding_spec.verdict(&start_feat, 0);
    let panics = matches!(exit, Exit::Panic | Exit::GCompleteThenPanic);
    let err_tag = match exit {
        Exit::ReturnErr => Some("return"),
        Exit::QuestionErr => Some("question"),
        Exit::TailErr => Some("tail"),
        _ => None,
    };
    let started = exit != Exit::NsNoStart;
    let completes = enabled && started;
    let on_custom = matches!(exit, Exit::GCompleteWith | Exit::GWithCompletion);

    cx.class(&format!("B:{}", site.name));
    cx.class_if(!enabled, "B:disabled");
    cx.class_if(panics, "B:panic");
    cx.class_if(err_tag.is_some(), "B:err-exit");
    cx.class_if(exit == Exit::QuestionErr, "B:question-mark");
    cx.class_if(exit == Exit::EarlyReturn, "B:early-return");
    cx.class_if(cancel, "B:cancelled-future");
    cx.class_if(site.is_async, "B:async");
    cx.class_if(site.shape == Shape::Guard, "B:guard-param");
    cx.class_if(!enabled && exit == Exit::GWithCompletion, "B:disabled+with_completion");
    cx.class_if(site.has_when, "B:when-param");
    cx.class_if(site.has_when && enabled && !c.filter.verdict(&start_feat, 0), "B:when-accepts-over-rejecting-runtime-filter");
    cx.class_if(site.has_when && !enabled && c.filter.verdict(&start_feat, 0), "B:when-rejects-over-accepting-runtime-filter");
    cx.class_if(deciding_spec.is_event_dependent(), "B:event-dependent-filter");
    cx.nontrivial(!enabled || exit != Exit::Fall);

    // the caller sees exactly what the body produced
    let want_ret: Option<Ret> = if panics {
        None
    } else if cancel {
        None
    } else {
        Some(match (site.shape, exit) {
            (Shape::Unit, _) => Ret::Unit,
            (Shape::Result, _) => match err_tag {
                Some(t) if site_ix == 7 => Ret::Err(format!("opaque:{t}")),
                Some(t) => Ret::Err(format!("myerr:{t}")),
                None => Ret::Ok(x),
            },
            (_, Exit::GComplete | Exit::GCompleteWith | Exit::NsStartTwiceComplete) => Ret::Completed(completes),
            (_, Exit::GWithCompletion) => Ret::Completed(enabled),
            _ => Ret::Unit,
        })
    };
    vassert_eq!(cx, ctxt_live_props(), 0usize, "ctxt-not-restored", "ambient context still holds properties after the case");
    match (&out, panics) {
        (Err(()), true) => {}
        (Err(()), false) => cx.fail("unexpected-panic", format!("site {} exit {:?} panicked: {:?}", site.name, exit, vcore::last_panic()))?,
        (Ok(_), true) => cx.fail("harness/panic-not-observed", format!("site {} exit {:?} did not panic", site.name, exit))?,
        (Ok(got), false) => {
            if !enabled && exit == Exit::GWithCompletion && *got == Some(Ret::Completed(true)) {
                // is_enabled() flipped on a filtered-out guard: same root as the completion below
                cx.fail("disabled-span-completed", format!("site {}: is_enabled() is true after with_completion on a guard the filter rejected", site.name))?;
            } else {
                vassert_eq!(cx, *got, want_ret, "return-value-mismatch", "value returned by site {} for exit {:?}", site.name, exit);
            }
        }
    }

    // the filter decides once, when the span is created, on the start event
    let decided = st.filters[deciding].borrow().evals.first().cloned();
    match &decided {
        None => cx.fail("filter-not-consulted", format!("site {}: the deciding filter was never consulted", site.name))?,
        Some((feat, v)) => {
            vassert!(
                cx,
                *feat == start_feat && *v == enabled,
                "start-filter-verdict-mismatch",
                "site {}: the filter {:?} was first shown {:?} and answered {}; the start event should look like {:?} (verdict {})",
                site.name,
                deciding_spec,
                feat,
                v,
                start_feat,
                enabled
            );
        }
    }
    // evaluations after the start decision (of the runtime's filter: `when:` only exists at the start)
    let later: Vec<(Feat, bool)> = {
        let rt_evals = st.filters[F_RUNTIME].borrow().evals.clone();
        let skip = if site.has_when { 0 } else { 1 };
        let mut v: Vec<(Feat, bool)> = rt_evals.into_iter().skip(skip).collect();
        v.extend(st.filters[F_WHEN].borrow().evals.iter().skip(if site.has_when { 1 } else { 0 }).cloned());
        v
    };
    let filtered_again = later.iter().any(|(_, v)| !*v);

    let recs = st.recs.borrow().clone();
    if !completes {
        if !recs.is_empty() {
            let sig = if !enabled && exit == Exit::GWithCompletion {
                "disabled-span-completed"
            } else if !enabled {
                "disabled-span-completed/without-with_completion"
            } else {
                "unstarted-span-completed"
            };
            cx.fail(
                sig,
                format!("site {} exit {:?} enabled={} started={}: {} span event(s)/completion(s) recorded on {:?}", site.name, exit, enabled, started, recs.len(), recs.iter().map(|r| r.recorder).collect::<Vec<_>>()),
            )?;
        }
        return Ok(());
    }

    if recs.is_empty() && filtered_again {
        cx.fail(
            "completion-filtered-again",
            format!(
                "site {} exit {:?}: the span passed {} ({:?}) and was started, but produced no event: the runtime filter {:?} was consulted again for the completion event {:?} and rejected it",
                site.name,
                exit,
                if site.has_when { "its `when:` filter" } else { "the runtime filter" },
                deciding_spec,
                c.filter,
                later.iter().find(|(_, v)| !*v).map(|(f, _)| f)
            ),
        )?;
        return Ok(());
    }
    vassert!(cx, !recs.is_empty(), "completion-missing", "site {} exit {:?}: enabled span produced no event", site.name, exit);
    vassert!(
        cx,
        recs.len() == 1,
        "completed-more-than-once",
        "site {} exit {:?}: {} events/completions on recorders {:?}",
        site.name,
        exit,
        recs.len(),
        recs.iter().map(|r| r.recorder).collect::<Vec<_>>()
    );
    let r = &recs[0];
    // would the runtime's filter have said something else about the completion event than the deciding filter
    // said about the start event?
    let result_exit = site.result_completion && !panics && !cancel;
    if !c.filter.verdict(&r.feat(), if site.has_when { 0 } else { 1 }) {
        cx.class(if panics && exit != Exit::GCompleteThenPanic {
            "differ:panic"
        } else if result_exit && matches!(exit, Exit::ReturnErr | Exit::QuestionErr | Exit::TailErr) {
            "differ:err-exit"
        } else if result_exit {
            "differ:ok-exit"
        } else if matches!(exit, Exit::GComplete | Exit::GCompleteThenPanic | Exit::NsStartTwiceComplete) {
            "differ:complete"
        } else if matches!(exit, Exit::GCompleteWith) {
            "differ:complete_with"
        } else {
            "differ:drop"
        });
    }
    vassert_eq!(cx, r.recorder, if on_custom { CUSTOM_ID } else { 0 }, "wrong-completion", "site {} exit {:?}: recorder", site.name, exit);
    vassert!(cx, r.kind_is_span && r.prop("evt_kind") == Some("span"), "span-kind-missing", "site {}: event lacks evt_kind=span: {:?}", site.name, r.props);
    let (want_name, want_mdl) = if exit == Exit::GRename { ("renamed", "renamed::mdl") } else { (site.tpl, site.mdl) };
    vassert_eq!(cx, r.prop("span_name"), Some(want_name), "span-name-mismatch", "site {} exit {:?}", site.name, exit);
    // the same by keyed lookup (generic, erased, through And chains, the kind filters)
    if let Err((view, got)) = r.all_views_give("span_name", Some(want_name)) {
        cx.fail("span-name-mismatch/keyed-lookup", format!("site {} exit {:?}: keyed lookup of span_name ({view}) gives {got:?}, the span's name is {want_name:?}; the event enumerates {:?}", site.name, exit, r.props))?;
    }
    if let Err((view, got)) = r.all_views_give("evt_kind", Some("span")) {
        cx.fail("span-kind-mismatch/keyed-lookup", format!("site {} exit {:?}: keyed lookup of evt_kind ({view}) gives {got:?}; the event enumerates {:?}", site.name, exit, r.props))?;
    }
    vassert_eq!(cx, r.name_pulled.as_deref(), Some(want_name), "span-name-mismatch/keyed-lookup", "site {} exit {:?}: pull::<Str>(span_name); the event enumerates {:?}", site.name, exit, r.props);
    vassert!(
        cx,
        r.span_filter_matches && !r.metric_filter_matches,
        "span-kind-mismatch/keyed-lookup",
        "site {} exit {:?}: is_span_filter matches={} is_metric_filter matches={}; the event enumerates {:?}",
        site.name,
        exit,
        r.span_filter_matches,
        r.metric_filter_matches,
        r.props
    );
    // the guard's own properties (only the rename exit installs any): all of them, in order, right after the
    // span's own name and kind, whatever they are called
    let user: Vec<(String, String)> = if exit == Exit::GRename {
        let (k1, v1, k2, v2, name_first) = rename_variant(c.rename as u32);
        let reserved = |k: &str| k != "p" && k != "q";
        cx.class_if(reserved(k1) || reserved(k2), "B:rename-with-colliding-props");
        cx.class_if(k1 == "span_name" || k2 == "span_name" || k1 == "evt_kind" || k2 == "evt_kind", "B:rename-with-props-named-span_name-or-evt_kind");
        cx.class_if(!name_first, "B:with_name-after-with_props");
        vec![(k1.to_string(), v1.to_string()), (k2.to_string(), v2.to_string())]
    } else {
        Vec::new()
    };
    let user_has = |key: &str| user.iter().any(|(k, _)| k == key);
    let first_user = |key: &str| user.iter().find(|(k, _)| k == key).map(|(_, v)| v.as_str());
    let rest = r.user_props_given(&user);
    vassert!(
        cx,
        rest.len() >= user.len() && rest[..user.len()] == user[..],
        "span-props-mismatch",
        "site {} exit {:?}: the span's own properties {:?} are not carried in order: {:?}",
        site.name,
        exit,
        user,
        r.props
    );
    for (k, _) in &user {
        // plain keys, and lvl / err where no completion assigns one (the rename exit is a plain drop on a site
        // without a level): the first property of that name answers the keyed lookup
        if k == "span_name" || k == "evt_kind" || is_id_key(k) {
            continue;
        }
        if let Err((view, got)) = r.all_views_give_any(k, first_user(k)) {
            cx.fail("span-props-mismatch/keyed-lookup", format!("site {} exit {:?}: keyed lookup of {k} ({view}) gives {got:?}, the span's first property of that name is {:?}; the event enumerates {:?}", site.name, exit, first_user(k), r.props))?;
        }
    }
    vassert_eq!(cx, r.mdl.as_str(), want_mdl, "span-mdl-mismatch", "site {} exit {:?}", site.name, exit);
    vassert_eq!(cx, r.phase, PH_END, "completed-early", "site {} exit {:?}: phase in which the completion ran (0 begin, 1 body, 2 end, 3 after)", site.name, exit);

    // extent: the reading taken by start() (before the body) .. the reading taken at completion
    let start = st.readings(PH_BEGIN);
    let end = st.readings(PH_END);
    match judge_extent(r.extent, &start, &end) {
        Ok(true) => cx.dont_care(),
        Ok(false) => {}
        Err(e) => cx.fail("extent-mismatch", format!("site {} exit {:?}: {e}", site.name, exit))?,
    }

    if on_custom {
        // a custom completion sees the bare span: level / err / ids are not its business
        return Ok(());
    }

    // level and err
    let result_path = site.result_completion && !panics && !cancel;
    if panics && exit != Exit::GCompleteThenPanic {
        let want = site.panic_lvl.unwrap_or(E);
        vassert_eq!(cx, r.lvl, Some(want), "panic-level-mismatch", "site {}: level of a span ended by a panic", site.name);
        vassert!(cx, r.prop("err").is_some(), "panic-err-missing", "site {}: span ended by a panic carries no err: {:?}", site.name, r.props);
    } else if result_path && err_tag.is_some() {
        let want = site.err_lvl.or(site.default_lvl).unwrap_or(E);
        vassert_eq!(cx, r.lvl, Some(want), "err-level-mismatch", "site {}: level of a span whose body returned Err", site.name);
        let want_err = if site.err_mapped { "mapped".to_string() } else { format!("myerr:{}", err_tag.unwrap()) };
        vassert_eq!(cx, r.prop("err").map(|s| s.to_string()), Some(want_err), "err-missing", "site {} exit {:?}: err property", site.name, exit);
    } else if result_path {
        let want = site.ok_lvl.or(site.default_lvl);
        vassert_eq!(cx, r.lvl, want, "ok-level-mismatch", "site {}: level of a span whose body returned Ok", site.name);
        vassert!(cx, r.prop("err").is_none(), "unexpected-err", "site {}: Ok span carries err: {:?}", site.name, r.props);
    } else {
        // a property of the span called lvl / err shows through where nothing else assigns one
        let user_lvl = first_user("lvl").and_then(|s| s.parse::<emit::Level>().ok());
        vassert_eq!(cx, r.lvl, site.default_lvl.or(user_lvl), "level-mismatch", "site {} exit {:?}: level of a normally completed span", site.name, exit);
        if err_tag.is_none() {
            vassert_eq!(cx, r.prop("err"), first_user("err"), "unexpected-err", "site {}: err of a normally completed span (only a span property called err may be there): {:?}", site.name, r.props);
        } else {
            // Err returned through a span without ok_lvl/err_lvl/err: whether err is attached is not stated
            cx.dont_care();
        }
    }

    // ids + captured property: present when the span completed inside its frame
    if cancel {
        cx.dont_care();
        return Ok(());
    }
    let seen = st.filter_seen.borrow().first().copied();
    let Some((t, s_id)) = seen else {
        return cx.fail("filter-not-consulted", format!("site {}: no filter was ever consulted", site.name));
    };
    if c.rng_avail {
        vassert!(cx, t.is_some() && s_id.is_some(), "ids-not-generated", "site {}: rng available but span ctxt has trace={:?} span={:?}", site.name, t, s_id);
    }
    let hex_t = t.map(|t| format!("{:032x}", t));
    let hex_s = s_id.map(|s| format!("{:016x}", s));
    for (key, hex) in [("trace_id", &hex_t), ("span_id", &hex_s)] {
        if user_has(key) {
            // a span property named like an id key: the frame's id must still be carried; which of the two a
            // first-match / keyed lookup answers is not stated
            cx.dont_care();
            let carried = r.props.iter().any(|(k, v)| k == key && Some(v) == hex.as_ref());
            vassert!(cx, carried || hex.is_none(), "ids-missing-on-event", "site {} exit {:?}: {key} {:?} the span was created with is not on the span event: {:?}", site.name, exit, hex, r.props);
        } else {
            vassert_eq!(cx, r.prop(key).map(|s| s.to_string()), *hex, "ids-missing-on-event", "site {} exit {:?}: {key} on the span event vs the id the span was created with", site.name, exit);
            if let Err((view, got)) = r.all_views_give_any(key, hex.as_deref()) {
                cx.fail("ids-missing-on-event/keyed-lookup", format!("site {} exit {:?}: keyed lookup of {key} ({view}) gives {got:?}, the span was created with {:?}", site.name, exit, hex))?;
            }
        }
    }
    // literal macro properties travel in the frame: carried after the span's own name and kind
    for (k, v) in site.extra {
        vassert!(cx, rest.iter().any(|(rk, rv)| rk == k && rv == v), "span-props-mismatch", "site {} exit {:?}: macro property {k}={v} is not on the span event: {:?}", site.name, exit, r.props);
        cx.class("B:macro-props-named-span_name-evt_kind");
    }
    if site.has_x {
        vassert_eq!(cx, r.prop("x").map(|s| s.to_string()), Some(x.to_string()), "span-props-mismatch", "site {} exit {:?}: captured property x", site.name, exit);
    }
    Ok(())
}
