//! C05 — each enabled, started span completes exactly once; disabled spans never do.
pub mod api;
pub mod forms;
pub mod rec;
