//! Domain A: the `SpanGuard` API as a state machine. The guard is held at one fixed, erased type so an
//! arbitrary generated sequence of builder operations type-checks; a model of
//! `(enabled, started, name, mdl, props, completion)` derived from the property text predicts the
//! observable outcome.

use std::panic::{catch_unwind, AssertUnwindSafe};
use std::rc::Rc;

use emit::props::ErasedProps;
use emit::span::completion::{self, Completion};
use emit::span::{Span, SpanGuard};
use emit::{Path, Props};
use serde::{Deserialize, Serialize};
use vcore::{vassert, vassert_eq, Cx, Res};

use crate::rec::*;

pub const NAMES: [&str; 6] = ["op", "op {x}", "", "fetch user", "a", "span name with spaces and {holes}"];
pub const MDLS: [&str; 5] = ["m", "app::a", "app::b::c", "x_y", "verif"];
pub const KEYS: [&str; 6] = ["a", "b", "c", "k0", "k1", "user_id"];

pub const K_CUSTOM: u8 = 0;
pub const K_DEFAULT: u8 = 1;
pub const K_RT_OK: u8 = 2;
pub const K_RT_ERR: u8 = 3;
pub const RT_TPL: &str = "a-result";
/// templates for `completion::Default::with_tpl`
pub const TPLS: [&str; 3] = ["a-tpl-0", "a-tpl-1 done", "completed by the builder"];
pub const DEFAULT_END_TPL: &str = "{span_name} completed";

/// One builder call on emit's `completion::Default`.
#[derive(Serialize, Deserialize, Debug, Clone, PartialEq)]
pub enum Setter {
    Lvl(u8),
    PanicLvl(u8),
    Tpl(u8),
}

#[derive(Serialize, Deserialize, Debug, Clone, PartialEq)]
pub struct CompSpec {
    /// 0: a custom `Completion` that records the `Span` it is given; 1: emit's own
    /// `completion::Default` over a recording emitter (adds lvl / err / ambient context); 2 / 3: the
    /// Result-aware completions the span macros pass to `complete_with` in their Ok / Err arms
    /// (`__private_complete_span_ok` / `_err`) over an explicit runtime whose filter is the case's filter
    pub kind: u8,
    /// level of the Ok / Err completions (kinds 2, 3)
    pub lvl: Option<u8>,
    /// unused since the builder sequence exists (kept so that older replay files still deserialise)
    pub panic_lvl: Option<u8>,
    /// kind 1: 0 = `completion::default(emitter, ctxt)`, 1 = `completion::Default::new(emitter, ctxt)`
    #[serde(default)]
    pub ctor: u8,
    /// kind 1: the builder calls applied to it, in order (each kind 0..=2 times; the last call of a kind wins)
    #[serde(default)]
    pub builder: Vec<Setter>,
}

impl CompSpec {
    pub fn last_lvl(&self) -> Option<emit::Level> {
        self.builder.iter().rev().find_map(|s| if let Setter::Lvl(l) = s { Some(LEVELS[idx(*l, 4)]) } else { None })
    }

    pub fn last_panic_lvl(&self) -> Option<emit::Level> {
        self.builder.iter().rev().find_map(|s| if let Setter::PanicLvl(l) = s { Some(LEVELS[idx(*l, 4)]) } else { None })
    }

    pub fn last_tpl(&self) -> Option<&'static str> {
        self.builder.iter().rev().find_map(|s| if let Setter::Tpl(t) = s { Some(TPLS[idx(*t, TPLS.len())]) } else { None })
    }

    /// the effective `with_panic_lvl` call is followed by a `with_tpl` call
    pub fn panic_lvl_before_tpl(&self) -> bool {
        match self.builder.iter().rposition(|s| matches!(s, Setter::PanicLvl(_))) {
            Some(i) => self.builder[i + 1..].iter().any(|s| matches!(s, Setter::Tpl(_))),
            None => false,
        }
    }

    /// the effective `with_lvl` call is followed by a `with_tpl` or `with_panic_lvl` call
    pub fn lvl_before_other(&self) -> bool {
        match self.builder.iter().rposition(|s| matches!(s, Setter::Lvl(_))) {
            Some(i) => i + 1 < self.builder.len(),
            None => false,
        }
    }
}

#[derive(Serialize, Deserialize, Debug, Clone, PartialEq)]
pub enum Op {
    WithMdl(u8),
    WithName(u8),
    WithProps(Vec<(u8, i8)>),
    MapAppend(u8, i8),
    MapPrepend(u8, i8),
    WithCompletion(CompSpec),
    Start,
}

#[derive(Serialize, Deserialize, Debug, Clone, PartialEq)]
pub enum Terminal {
    Complete,
    CompleteWith(CompSpec),
    Drop,
    PanicDrop,
}

#[derive(Serialize, Deserialize, Debug, Clone)]
pub struct CaseA {
    pub filter: FilterSpec,
    pub inside_frame: bool,
    pub rng_avail: bool,
    pub rng_seed: u32,
    pub clock: Vec<Option<u32>>,
    pub init_comp: CompSpec,
    pub init_name: u8,
    pub init_mdl: u8,
    pub init_props: Vec<(u8, i8)>,
    pub ops: Vec<Op>,
    pub terminal: Terminal,
}

type PropsBox = Box<dyn ErasedProps>;
type Guard = SpanGuard<'static, ClockH, PropsBox, Comp>;

fn idx(i: u8, len: usize) -> usize {
    i as usize % len
}

fn props_box(ps: &[(u8, i8)]) -> PropsBox {
    let v: Box<[(&'static str, i64)]> = ps.iter().map(|(k, v)| (KEYS[idx(*k, KEYS.len())], *v as i64)).collect();
    Box::new(v)
}

fn props_model(ps: &[(u8, i8)]) -> Vec<(String, String)> {
    ps.iter().map(|(k, v)| (KEYS[idx(*k, KEYS.len())].to_string(), (*v as i64).to_string())).collect()
}

/// One completion type for every completion the case uses; instances differ by `id`.
pub struct Comp {
    id: u32,
    st: Rc<St>,
    kind: u8,
    lvl: Option<emit::Level>,
    ctor: u8,
    builder: Vec<Setter>,
}

impl Comp {
    fn new(id: u32, st: &Rc<St>, spec: &CompSpec) -> Comp {
        Comp {
            id,
            st: st.clone(),
            kind: spec.kind % 4,
            lvl: spec.lvl.map(|l| LEVELS[idx(l, 4)]),
            ctor: spec.ctor,
            builder: spec.builder.clone(),
        }
    }
}

impl Completion for Comp {
    fn complete<P: Props>(&self, span: Span<P>) {
        if self.kind == K_RT_OK {
            let rt = build_rt(&self.st, self.id);
            let tpl = emit::Template::literal(RT_TPL);
            emit::__private::__private_complete_span_ok(&rt, tpl, self.lvl.as_ref()).complete(span);
        } else if self.kind == K_RT_ERR {
            let rt = build_rt(&self.st, self.id);
            let tpl = emit::Template::literal(RT_TPL);
            let lvl = self.lvl.unwrap_or(emit::Level::Error);
            emit::__private::__private_complete_span_err(&rt, tpl, &lvl, "a-err").complete(span);
        } else if self.kind == K_DEFAULT {
            let emitter = RecEmitter { id: self.id, st: self.st.clone() };
            // both public constructors; the builder calls are applied in the generated order
            let mut c: completion::Default<'static, _, _, emit::Level> = if self.ctor % 2 == 0 {
                completion::default(emitter, ctxt())
            } else {
                completion::Default::new(emitter, ctxt())
            };
            for setter in &self.builder {
                c = match setter {
                    Setter::Lvl(l) => c.with_lvl(LEVELS[idx(*l, 4)]),
                    Setter::PanicLvl(l) => c.with_panic_lvl(LEVELS[idx(*l, 4)]),
                    Setter::Tpl(t) => c.with_tpl(emit::Template::literal(TPLS[idx(*t, TPLS.len())])),
                };
            }
            c.complete(span);
        } else {
            use emit::event::ToEvent;
            let evt = span.to_event();
            self.st.record(self.id, false, &evt);
        }
    }
}

struct Model {
    enabled: bool,
    started: bool,
    start_phase: Option<u32>,
    name: String,
    mdl: String,
    props: Vec<(String, String)>,
    comp_id: u32,
    comp: CompSpec,
}

struct Observed {
    /// (phase, is_enabled()) after construction (phase 0) and after every op
    enabled: Vec<(u32, bool)>,
    /// bool returned by complete / complete_with
    ret: Option<bool>,
    panicked: bool,
}

const COMPLETE_WITH_ID: u32 = 10_000;

pub fn check_api(c: &CaseA, cx: &mut Cx) -> Res {
    let st = St::new(c.filter.clone(), FilterSpec::AcceptAll, c.clock.clone(), c.rng_avail, c.rng_seed as u64);
    // "passed the filter" = the filter's verdict on the span's START event (first evaluation): no level, no
    // extent, no err, template "{span_name} started"
    let start_feat = Feat {
        lvl: None,
        has_extent: false,
        has_err: false,
        tpl: "{span_name} started".to_string(),
    };
    let verdict = c.filter.verdict(&start_feat, 0);
    let terminal_phase = c.ops.len() as u32 + 1;

    // ---- the model, straight from the property text -------------------------------------------
    let mut m = Model {
        enabled: verdict,
        started: false,
        start_phase: None,
        name: NAMES[idx(c.init_name, NAMES.len())].to_string(),
        mdl: MDLS[idx(c.init_mdl, MDLS.len())].to_string(),
        props: props_model(&c.init_props),
        comp_id: 0,
        comp: c.init_comp.clone(),
    };
    let mut n_starts = 0;
    let mut n_with_completion = 0;
    let mut builder_ops = 0;
    for (i, op) in c.ops.iter().enumerate() {
        let phase = i as u32 + 1;
        match op {
            Op::WithMdl(x) => m.mdl = MDLS[idx(*x, MDLS.len())].to_string(),
            Op::WithName(x) => m.name = NAMES[idx(*x, NAMES.len())].to_string(),
            Op::WithProps(ps) => m.props = props_model(ps),
            Op::MapAppend(k, v) => m.props.push((KEYS[idx(*k, KEYS.len())].to_string(), (*v as i64).to_string())),
            Op::MapPrepend(k, v) => m.props.insert(0, (KEYS[idx(*k, KEYS.len())].to_string(), (*v as i64).to_string())),
            Op::WithCompletion(spec) => {
                m.comp_id = phase;
                m.comp = spec.clone();
                n_with_completion += 1;
            }
            Op::Start => {
                n_starts += 1;
                if !m.started {
                    m.started = true;
                    m.start_phase = Some(phase);
                }
            }
        }
        if !matches!(op, Op::Start) {
            builder_ops += 1;
        }
    }
    let completes = m.enabled && m.started;
    if let Terminal::CompleteWith(spec) = &c.terminal {
        m.comp_id = COMPLETE_WITH_ID;
        m.comp = spec.clone();
    }
    let panic_exit = matches!(c.terminal, Terminal::PanicDrop);

    // ---- classification -------------------------------------------------------------------------
    cx.class_if(!verdict, "A:disabled");
    cx.class_if(!verdict && n_with_completion > 0, "A:disabled+with_completion");
    cx.class_if(c.filter.is_event_dependent(), "A:event-dependent-filter");
    cx.class_if(panic_exit, "A:panic-drop");
    cx.class_if(panic_exit && completes, "A:panic-drop-completing");
    cx.class_if(n_starts >= 2, "A:repeated-start");
    cx.class_if(n_starts == 0, "A:never-started");
    cx.class_if(matches!(c.terminal, Terminal::CompleteWith(_)), "A:complete_with");
    cx.class_if(matches!(c.terminal, Terminal::Complete), "A:complete");
    cx.class_if(!c.inside_frame, "A:outside-frame");
    cx.class_if(completes && m.comp.kind % 4 == K_DEFAULT, "A:default-completion");
    cx.class_if(completes && m.comp.kind % 4 >= K_RT_OK, "A:result-hook-completion");
    cx.class_if(completes, "A:completing");
    cx.nontrivial((builder_ops >= 2 && n_with_completion > 0) || !verdict || n_starts >= 2 || panic_exit);

    // ---- run the real thing -----------------------------------------------------------------------
    let (guard, frame): (Guard, _) = SpanGuard::new(
        SpecFilter { which: F_RUNTIME, st: st.clone() },
        ctxt(),
        ClockH(st.clone()),
        RngH(st.clone()),
        Comp::new(0, &st, &c.init_comp),
        emit::Empty,
        Path::new_raw(MDLS[idx(c.init_mdl, MDLS.len())]),
        NAMES[idx(c.init_name, NAMES.len())],
        props_box(&c.init_props),
    );

    let run = {
        let st = st.clone();
        move || -> Observed {
            let mut g = guard;
            let mut obs = Observed {
                enabled: vec![(0, g.is_enabled())],
                ret: None,
                panicked: false,
            };
            for (i, op) in c.ops.iter().enumerate() {
                let phase = i as u32 + 1;
                st.phase.set(phase);
                g = match op {
                    Op::WithMdl(x) => g.with_mdl(Path::new_raw(MDLS[idx(*x, MDLS.len())])),
                    Op::WithName(x) => g.with_name(NAMES[idx(*x, NAMES.len())]),
                    Op::WithProps(ps) => g.with_props(props_box(ps)),
                    Op::MapAppend(k, v) => {
                        let kv = (KEYS[idx(*k, KEYS.len())], *v as i64);
                        g.map_props(move |p| Box::new(p.and_props(kv)) as PropsBox)
                    }
                    Op::MapPrepend(k, v) => {
                        let kv = (KEYS[idx(*k, KEYS.len())], *v as i64);
                        g.map_props(move |p| Box::new(kv.and_props(p)) as PropsBox)
                    }
                    Op::WithCompletion(spec) => g.with_completion(Comp::new(phase, &st, spec)),
                    Op::Start => {
                        g.start();
                        g
                    }
                };
                obs.enabled.push((phase, g.is_enabled()));
            }
            st.phase.set(terminal_phase);
            match &c.terminal {
                Terminal::Complete => obs.ret = Some(g.complete()),
                Terminal::CompleteWith(spec) => obs.ret = Some(g.complete_with(Comp::new(COMPLETE_WITH_ID, &st, spec))),
                Terminal::Drop => drop(g),
                Terminal::PanicDrop => {
                    let r = catch_unwind(AssertUnwindSafe(move || {
                        let _held = g;
                        panic!("c05: scripted panic while the guard is alive");
                    }));
                    obs.panicked = r.is_err();
                }
            }
            st.phase.set(terminal_phase + 1);
            obs
        }
    };
    let obs = if c.inside_frame {
        frame.call(run)
    } else {
        let o = run();
        drop(frame);
        o
    };

    // ---- oracle ------------------------------------------------------------------------------------
    let recs = st.recs.borrow().clone();
    let clock_log = st.clock_log.borrow().clone();
    let backwards = clock_log.windows(2).any(|w| matches!((w[0].1, w[1].1), (Some(a), Some(b)) if b < a));
    cx.class_if(backwards, "A:clock-backwards");
    cx.class_if(clock_log.iter().any(|(_, r)| r.is_none()), "A:clock-unavailable");
    cx.class_if(clock_log.windows(2).any(|w| w[0].1.is_some() && w[0].1 == w[1].1), "A:clock-repeated");

    vassert!(cx, !panic_exit || obs.panicked, "harness/panic-not-observed", "scripted panic did not unwind");
    vassert_eq!(cx, ctxt_live_props(), 0usize, "ctxt-not-restored", "ambient context still holds properties after the case");

    // the filter decides once, when the span is created, on the start event
    let evals = st.filters[F_RUNTIME].borrow().evals.clone();
    match evals.first() {
        None => cx.fail("filter-not-consulted", "SpanGuard::new did not consult the filter".to_string())?,
        Some((feat, v)) => {
            vassert!(
                cx,
                *feat == start_feat && *v == verdict,
                "start-filter-verdict-mismatch",
                "the filter {:?} was first shown {:?} and answered {}; the start event should look like {:?} (verdict {})",
                c.filter,
                feat,
                v,
                start_feat,
                verdict
            );
        }
    }
    let filtered_again = evals.iter().skip(1).any(|(_, v)| !*v);

    // a filtered-out span must stay disabled and silent, whatever was done to it
    if !m.enabled {
        let flipped = obs.enabled.iter().find(|(_, e)| *e).map(|(p, _)| *p);
        if !recs.is_empty() || obs.ret == Some(true) || flipped.is_some() {
            let sig = if n_with_completion > 0 {
                "disabled-span-completed"
            } else {
                "disabled-span-completed/without-with_completion"
            };
            cx.fail(
                sig,
                format!(
                    "span rejected by the filter: completions recorded={} (recorders {:?}), complete* returned {:?}, is_enabled() became true after op #{:?}",
                    recs.len(),
                    recs.iter().map(|r| r.recorder).collect::<Vec<_>>(),
                    obs.ret,
                    flipped
                ),
            )?;
            // listed known finding: this case is stepped over
            return Ok(());
        }
        return Ok(());
    }

    for (phase, e) in &obs.enabled {
        vassert!(cx, *e, "is-enabled-mismatch", "is_enabled() false after op #{} on a span that passed the filter", phase);
    }
    if let Some(ret) = obs.ret {
        vassert_eq!(cx, ret, completes, "complete-return-mismatch", "complete*/complete_with returned (enabled={}, started={})", m.enabled, m.started);
    }
    if !completes {
        vassert!(
            cx,
            recs.is_empty(),
            "unstarted-span-completed",
            "never-started span produced {} completion(s) on recorders {:?}",
            recs.len(),
            recs.iter().map(|r| r.recorder).collect::<Vec<_>>()
        );
        return Ok(());
    }

    if recs.is_empty() && filtered_again {
        cx.fail(
            "completion-filtered-again",
            format!(
                "enabled, started span ended by {:?} produced no completion: the filter {:?} accepted the start event, was consulted {} more time(s) and rejected the completion event ({:?})",
                c.terminal,
                c.filter,
                evals.len() - 1,
                evals.last().map(|(f, _)| f)
            ),
        )?;
        return Ok(());
    }
    vassert!(
        cx,
        !recs.is_empty(),
        "completion-missing",
        "enabled, started span ended by {:?} produced no completion",
        c.terminal
    );
    vassert!(
        cx,
        recs.len() == 1,
        "completed-more-than-once",
        "enabled, started span produced {} completions on recorders {:?}",
        recs.len(),
        recs.iter().map(|r| r.recorder).collect::<Vec<_>>()
    );
    let r = &recs[0];
    // would this filter have said something else about the completion event than about the start event?
    if !c.filter.verdict(&r.feat(), 1) {
        cx.class(match c.terminal {
            Terminal::Complete => "differ:complete",
            Terminal::CompleteWith(_) => "differ:complete_with",
            Terminal::Drop => "differ:drop",
            Terminal::PanicDrop => "differ:panic",
        });
        cx.class_if(m.comp.kind % 4 >= K_RT_OK, "differ:A-through-result-hook");
    }
    vassert_eq!(cx, r.recorder, m.comp_id, "wrong-completion", "completion ran on recorder (0 = initial, n = with_completion at op n, 10000 = complete_with)");
    vassert_eq!(cx, r.phase, terminal_phase, "completed-early", "completion ran during op/phase");
    vassert_eq!(cx, r.mdl, m.mdl, "span-mdl-mismatch", "module of the completed span");
    vassert_eq!(cx, r.prop("span_name").map(|s| s.to_string()), Some(m.name.clone()), "span-name-mismatch", "name of the completed span");
    vassert!(cx, r.kind_is_span, "span-kind-missing", "completed span does not carry evt_kind=span: {:?}", r.props);
    vassert_eq!(cx, r.user_props(), m.props, "span-props-mismatch", "properties of the completed span");

    // extent
    let start = st.readings(m.start_phase.unwrap());
    let end = st.readings(terminal_phase);
    match judge_extent(r.extent, &start, &end) {
        Ok(true) => cx.dont_care(),
        Ok(false) => {}
        Err(e) => cx.fail("extent-mismatch", e)?,
    }
    cx.class_if(matches!(r.extent, Some((true, a, b)) if b < a), "A:extent-backwards");
    cx.class_if(r.extent.is_none(), "A:extent-none");

    // panic / level clauses (only emit's default completion adds them)
    vassert_eq!(cx, r.panicking, panic_exit, "harness/panicking-flag", "thread::panicking() at completion");
    let kind = m.comp.kind % 4;
    if kind == K_RT_OK || kind == K_RT_ERR {
        vassert!(cx, r.via_emitter, "harness/route", "result completion did not go through the emitter");
        let lvl = m.comp.lvl.map(|l| LEVELS[idx(l, 4)]);
        if kind == K_RT_OK {
            vassert_eq!(cx, r.lvl, lvl, "ok-level-mismatch", "level of a span completed through the Ok completion");
            vassert!(cx, r.prop("err").is_none(), "unexpected-err", "span completed through the Ok completion carries err: {:?}", r.props);
        } else {
            vassert_eq!(cx, r.lvl, Some(lvl.unwrap_or(emit::Level::Error)), "err-level-mismatch", "level of a span completed through the Err completion");
            vassert_eq!(cx, r.prop("err"), Some("a-err"), "err-missing", "err of a span completed through the Err completion");
        }
        vassert_eq!(cx, r.tpl.as_str(), RT_TPL, "template-mismatch", "template of a span completed through a Result completion");
    }
    if kind == K_DEFAULT {
        vassert!(cx, r.via_emitter, "harness/route", "default completion did not go through the emitter");
        let b = &m.comp;
        cx.class_if(b.builder.len() >= 2, "builder:>=2-setters");
        cx.class_if(b.panic_lvl_before_tpl(), "builder:with_panic_lvl-before-with_tpl");
        cx.class_if(b.panic_lvl_before_tpl() && panic_exit, "builder:with_panic_lvl-before-with_tpl/panic-exit");
        cx.class_if(b.lvl_before_other(), "builder:with_lvl-before-other-setter");
        cx.class_if(b.builder.iter().filter(|s| matches!(s, Setter::PanicLvl(_))).count() >= 2, "builder:setter-repeated");
        cx.class_if(b.ctor % 2 == 1, "builder:Default::new");
        cx.class_if(matches!(c.terminal, Terminal::CompleteWith(_)), "builder:through-complete_with");
        vassert_eq!(
            cx,
            r.tpl.as_str(),
            b.last_tpl().unwrap_or(DEFAULT_END_TPL),
            "template-mismatch",
            "template of a span completed by completion::Default built with {:?}",
            b.builder
        );
        if panic_exit {
            let want = b.last_panic_lvl().unwrap_or(emit::Level::Error);
            vassert_eq!(cx, r.lvl, Some(want), "panic-level-mismatch", "level of a span completed by unwinding (completion::Default built with {:?})", b.builder);
            vassert!(cx, r.prop("err").is_some(), "panic-err-missing", "span completed by unwinding carries no err: {:?}", r.props);
        } else {
            vassert_eq!(cx, r.lvl, b.last_lvl(), "level-mismatch", "level of a normally completed span (completion::Default built with {:?})", b.builder);
            vassert!(cx, r.prop("err").is_none(), "unexpected-err", "normally completed span carries err: {:?}", r.props);
        }
    }

    // ids: when completed inside its frame the ambient context carries the ids the span was created with
    if c.inside_frame {
        let seen = st.filter_seen.borrow().first().copied();
        if let Some((t, s)) = seen {
            if c.rng_avail {
                vassert!(cx, t.is_some() && s.is_some(), "ids-not-generated", "rng available but span ctxt has trace={:?} span={:?}", t, s);
            }
            vassert_eq!(cx, (r.cur_trace, r.cur_span), (t, s), "ids-missing-at-completion", "ids in the ambient context at completion vs ids the span was created with");
            if kind != K_CUSTOM && t.is_some() {
                vassert!(
                    cx,
                    r.prop("trace_id").is_some() && r.prop("span_id").is_some(),
                    "ids-missing-on-event",
                    "event emitted by the default completion inside the frame lacks ids: {:?}",
                    r.props
                );
            }
        } else {
            cx.fail("filter-not-consulted", "SpanGuard::new did not consult the filter".to_string())?;
        }
    } else {
        cx.dont_care();
    }
    Ok(())
}
