//! Domain A: the `SpanGuard` API as a state machine. The guard is held at one fixed, erased type so an
//! arbitrary generated sequence of builder operations type-checks; a model of
//! `(enabled, started, name, mdl, props, completion)` derived from the property text predicts the
//! observable outcome.

use std::panic::{catch_unwind, AssertUnwindSafe};
use std::rc::Rc;

use emit::props::ErasedProps;
use emit::span::completion::{self, Completion};
use emit::span::{Span, SpanGuard};
use emit::{Path, Props};
use serde::{Deserialize, Serialize};
use vcore::{vassert, vassert_eq, Cx, Res};

use crate::rec::*;

pub const NAMES: [&str; 6] = ["op", "op {x}", "", "fetch user", "a", "span name with spaces and {holes}"];
pub const MDLS: [&str; 5] = ["m", "app::a", "app::b::c", "x_y", "verif"];

pub const K_CUSTOM: u8 = 0;
pub const K_DEFAULT: u8 = 1;
pub const K_RT_OK: u8 = 2;
pub const K_RT_ERR: u8 = 3;
pub const RT_TPL: &str = "a-result";
/// templates for `completion::Default::with_tpl`
pub const TPLS: [&str; 3] = ["a-tpl-0", "a-tpl-1 done", "completed by the builder"];
pub const DEFAULT_END_TPL: &str = "{span_name} completed";

/// One builder call on emit's `completion::Default`.
#[derive(Serialize, Deserialize, Debug, Clone, PartialEq)]
pub enum Setter {
    Lvl(u8),
    PanicLvl(u8),
    Tpl(u8),
}

#[derive(Serialize, Deserialize, Debug, Clone, PartialEq)]
pub struct CompSpec {
    /// 0: a custom `Completion` that records the `Span` it is given; 1: emit's own
    /// `completion::Default` over a recording emitter (adds lvl / err / ambient context); 2 / 3: the
    /// Result-aware completions the span macros pass to `complete_with` in their Ok / Err arms
    /// (`__private_complete_span_ok` / `_err`) over an explicit runtime whose filter is the case's filter
    pub kind: u8,
    /// level of the Ok / Err completions (kinds 2, 3)
    pub lvl: Option<u8>,
    /// unused since the builder sequence exists (kept so that older replay files still deserialise)
    pub panic_lvl: Option<u8>,
    /// kind 1: 0 = `completion::default(emitter, ctxt)`, 1 = `completion::Default::new(emitter, ctxt)`
    #[serde(default)]
    pub ctor: u8,
    /// kind 1: the builder calls applied to it, in order (each kind 0..=2 times; the last call of a kind wins)
    #[serde(default)]
    pub builder: Vec<Setter>,
}

impl CompSpec {
    pub fn last_lvl(&self) -> Option<emit::Level> {
        self.builder.iter().rev().find_map(|s| if let Setter::Lvl(l) = s { Some(LEVELS[idx(*l, 4)]) } else { None })
    }

    pub fn last_panic_lvl(&self) -> Option<emit::Level> {
        self.builder.iter().rev().find_map(|s| if let Setter::PanicLvl(l) = s { Some(LEVELS[idx(*l, 4)]) } else { None })
    }

    pub fn last_tpl(&self) -> Option<&'static str> {
        self.builder.iter().rev().find_map(|s| if let Setter::Tpl(t) = s { Some(TPLS[idx(*t, TPLS.len())]) } else { None })
    }

    /// the effective `with_panic_lvl` call is followed by a `with_tpl` call
    pub fn panic_lvl_before_tpl(&self) -> bool {
        match self.builder.iter().rposition(|s| matches!(s, Setter::PanicLvl(_))) {
            Some(i) => self.builder[i + 1..].iter().any(|s| matches!(s, Setter::Tpl(_))),
            None => false,
        }
    }

    /// the effective `with_lvl` call is followed by a `with_tpl` or `with_panic_lvl` call
    pub fn lvl_before_other(&self) -> bool {
        match self.builder.iter().rposition(|s| matches!(s, Setter::Lvl(_))) {
            Some(i) => i + 1 < self.builder.len(),
            None => false,
        }
    }
}

#[derive(Serialize, Deserialize, Debug, Clone, PartialEq)]
pub enum Op {
    WithMdl(u8),
    WithName(u8),
    WithProps(Vec<(u8, i8)>),
    MapAppend(u8, i8),
    MapPrepend(u8, i8),
    WithCompletion(CompSpec),
    Start,
}

#[derive(Serialize, Deserialize, Debug, Clone, PartialEq)]
pub enum Terminal {
    Complete,
    CompleteWith(CompSpec),
    Drop,
    PanicDrop,
}

#[derive(Serialize, Deserialize, Debug, Clone)]
pub struct CaseA {
    pub filter: FilterSpec,
    pub inside_frame: bool,
    pub rng_avail: bool,
    pub rng_seed: u32,
    pub clock: Vec<Option<u32>>,
    pub init_comp: CompSpec,
    pub init_name: u8,
    pub init_mdl: u8,
    pub init_props: Vec<(u8, i8)>,
    pub ops: Vec<Op>,
    pub terminal: Terminal,
}

type PropsBox = Box<dyn ErasedProps>;
type Guard = SpanGuard<'static, ClockH, PropsBox, Comp>;

fn idx(i: u8, len: usize) -> usize {
    i as usize % len
}

fn props_box(ps: &[(u8, i8)]) -> PropsBox {
    let v: Box<[(&'static str, emit::Value<'static>)]> = ps.iter().map(|(k, v)| (key_of(*k), val_of(*k, *v).value())).collect();
    Box::new(v)
}

fn props_model(ps: &[(u8, i8)]) -> Vec<(String, String)> {
    ps.iter().map(|(k, v)| kv_model(*k, *v)).collect()
}

fn kv_model(k: u8, v: i8) -> (String, String) {
    (key_of(k).to_string(), val_of(k, v).text())
}

fn first_of<'a>(props: &'a [(String, String)], key: &str) -> Option<&'a str> {
    props.iter().find(|(k, _)| k == key).map(|(_, v)| v.as_str())
}

/// One completion type for every completion the case uses; instances differ by `id`.
pub struct Comp {
    id: u32,
    st: Rc<St>,
    kind: u8,
    lvl: Option<emit::Level>,
    ctor: u8,
    builder: Vec<Setter>,
}

impl Comp {
    fn new(id: u32, st: &Rc<St>, spec: &CompSpec) -> Comp {
        Comp {
            id,
            st: st.clone(),
            kind: spec.kind % 4,
            lvl: spec.lvl.map(|l| LEVELS[idx(l, 4)]),
            ctor: spec.ctor,
            builder: spec.builder.clone(),
        }
    }
}

impl Completion for Comp {
    fn complete<P: Props>(&self, span: Span<P>) {
        if self.kind == K_RT_OK {
            let rt = build_rt(&self.st, self.id);
            let tpl = emit::Template::literal(RT_TPL);
            emit::__private::__private_complete_span_ok(&rt, tpl, self.lvl.as_ref()).complete(span);
        } else if self.kind == K_RT_ERR {
            let rt = build_rt(&self.st, self.id);
            let tpl = emit::Template::literal(RT_TPL);
            let lvl = self.lvl.unwrap_or(emit::Level::Error);
            emit::__private::__private_complete_span_err(&rt, tpl, &lvl, "a-err").complete(span);
        } else if self.kind == K_DEFAULT {
            let emitter = RecEmitter { id: self.id, st: self.st.clone() };
            // both public constructors; the builder calls are applied in the generated order
            let mut c: completion::Default<'static, _, _, emit::Level> = if self.ctor % 2 == 0 {
                completion::default(emitter, ctxt())
            } else {
                completion::Default::new(emitter, ctxt())
            };
            for setter in &self.builder {
                c = match setter {
                    Setter::Lvl(l) => c.with_lvl(LEVELS[idx(*l, 4)]),
                    Setter::PanicLvl(l) => c.with_panic_lvl(LEVELS[idx(*l, 4)]),
                    Setter::Tpl(t) => c.with_tpl(emit::Template::literal(TPLS[idx(*t, TPLS.len())])),
                };
            }
            c.complete(span);
        } else {
            use emit::event::ToEvent;
            let evt = span.to_event();
            self.st.record(self.id, false, &evt);
            self.st.add_span_views(&span);
            self.st.add_span_name(span.name().to_string());
        }
    }
}

struct Model {
    enabled: bool,
    started: bool,
    start_phase: Option<u32>,
    name: String,
    mdl: String,
    props: Vec<(String, String)>,
    comp_id: u32,
    comp: CompSpec,
}

struct Observed {
    /// (phase, is_enabled()) after construction (phase 0) and after every op
    enabled: Vec<(u32, bool)>,
    /// bool returned by complete / complete_with
    ret: Option<bool>,
    panicked: bool,
}

const COMPLETE_WITH_ID: u32 = 10_000;

/// Every keyed view of `key` on the completed event must give `want`.
fn keyed(cx: &mut Cx, r: &Rec, key: &str, want: Option<&str>, sig: &str, what: &str) -> Res {
    if let Err((view, got)) = r.all_views_give(key, want) {
        cx.fail(
            sig,
            format!("keyed lookup of `{key}` on the completed event ({view}) gives {got:?}; {what} is {want:?}; the event enumerates {:?}", r.props),
        )?;
    }
    Ok(())
}

pub fn check_api(c: &CaseA, cx: &mut Cx) -> Res {
    let st = St::new(c.filter.clone(), FilterSpec::AcceptAll, c.clock.clone(), c.rng_avail, c.rng_seed as u64);
    // "passed the filter" = the filter's verdict on the span's START event (first evaluation): no level, no
    // extent, no err, template "{span_name} started"
    // ... carrying the span's name, kind and the properties it was constructed with: a property called `lvl` / `err`
    // is the level / error the filter sees; a property called `span_name` / `evt_kind` does not rename or re-kind it
    let init_user = props_model(&c.init_props);
    let start_feat = Feat {
        lvl: first_of(&init_user, "lvl").and_then(|s| s.parse::<emit::Level>().ok()),
        has_extent: false,
        has_err: first_of(&init_user, "err").is_some(),
        tpl: "{span_name} started".to_string(),
        is_span: true,
        name: Some(NAMES[idx(c.init_name, NAMES.len())].to_string()),
    };
    let verdict = c.filter.verdict(&start_feat, 0);
    let terminal_phase = c.ops.len() as u32 + 1;

    // ---- the model, straight from the property text -------------------------------------------
    let mut m = Model {
        enabled: verdict,
        started: false,
        start_phase: None,
        name: NAMES[idx(c.init_name, NAMES.len())].to_string(),
        mdl: MDLS[idx(c.init_mdl, MDLS.len())].to_string(),
        props: props_model(&c.init_props),
        comp_id: 0,
        comp: c.init_comp.clone(),
    };
    let mut n_starts = 0;
    let mut n_with_completion = 0;
    let mut builder_ops = 0;
    // provenance of every entry of `m.props`: (0 given to new / 1 with_props / 2 map_props, with_name called afterwards)
    let mut prov: Vec<(u8, bool)> = c.init_props.iter().map(|_| (0, false)).collect();
    for (i, op) in c.ops.iter().enumerate() {
        let phase = i as u32 + 1;
        match op {
            Op::WithMdl(x) => m.mdl = MDLS[idx(*x, MDLS.len())].to_string(),
            Op::WithName(x) => {
                m.name = NAMES[idx(*x, NAMES.len())].to_string();
                prov.iter_mut().for_each(|p| p.1 = true);
            }
            Op::WithProps(ps) => {
                m.props = props_model(ps);
                prov = ps.iter().map(|_| (1, false)).collect();
            }
            Op::MapAppend(k, v) => {
                m.props.push(kv_model(*k, *v));
                prov.push((2, false));
            }
            Op::MapPrepend(k, v) => {
                m.props.insert(0, kv_model(*k, *v));
                prov.insert(0, (2, false));
            }
            Op::WithCompletion(spec) => {
                m.comp_id = phase;
                m.comp = spec.clone();
                n_with_completion += 1;
            }
            Op::Start => {
                n_starts += 1;
                if !m.started {
                    m.started = true;
                    m.start_phase = Some(phase);
                }
            }
        }
        if !matches!(op, Op::Start) {
            builder_ops += 1;
        }
    }
    let completes = m.enabled && m.started;
    if let Terminal::CompleteWith(spec) = &c.terminal {
        m.comp_id = COMPLETE_WITH_ID;
        m.comp = spec.clone();
    }
    let panic_exit = matches!(c.terminal, Terminal::PanicDrop);

    // ---- classification -------------------------------------------------------------------------
    cx.class_if(!verdict, "A:disabled");
    cx.class_if(!verdict && n_with_completion > 0, "A:disabled+with_completion");
    cx.class_if(c.filter.is_event_dependent(), "A:event-dependent-filter");
    cx.class_if(panic_exit, "A:panic-drop");
    cx.class_if(panic_exit && completes, "A:panic-drop-completing");
    cx.class_if(n_starts >= 2, "A:repeated-start");
    cx.class_if(n_starts == 0, "A:never-started");
    cx.class_if(matches!(c.terminal, Terminal::CompleteWith(_)), "A:complete_with");
    cx.class_if(matches!(c.terminal, Terminal::Complete), "A:complete");
    cx.class_if(!c.inside_frame, "A:outside-frame");
    cx.class_if(completes && m.comp.kind % 4 == K_DEFAULT, "A:default-completion");
    cx.class_if(completes && m.comp.kind % 4 >= K_RT_OK, "A:result-hook-completion");
    cx.class_if(completes, "A:completing");
    // properties whose keys collide with emit's well-known keys
    let collides_own = m.props.iter().any(|(k, _)| is_own_key(k));
    let collides_head = m.props.iter().any(|(k, _)| k == "lvl" || k == "err");
    let collides_ids = m.props.iter().any(|(k, _)| is_id_key(k));
    // where the colliding property came from, and whether the span was renamed after it was installed
    let own_prov: Vec<(u8, bool)> = m.props.iter().zip(&prov).filter(|((k, _), _)| is_own_key(k)).map(|(_, p)| *p).collect();
    let own_at_new = own_prov.iter().any(|p| p.0 == 0);
    let own_by_with_props = own_prov.iter().any(|p| p.0 == 1);
    let own_by_map_props = own_prov.iter().any(|p| p.0 == 2);
    let renamed_after_own = own_prov.iter().any(|p| p.1);
    if completes {
        cx.class_if(collides_own, "collide:own-key(span_name/evt_kind)");
        cx.class_if(m.props.iter().any(|(k, _)| k == "span_name"), "collide:span_name");
        cx.class_if(m.props.iter().any(|(k, _)| k == "evt_kind"), "collide:evt_kind");
        cx.class_if(collides_own && own_at_new, "collide:own-key/given-to-new");
        cx.class_if(collides_own && own_by_with_props, "collide:own-key/by-with_props");
        cx.class_if(collides_own && own_by_map_props, "collide:own-key/by-map_props");
        cx.class_if(collides_own && renamed_after_own, "collide:own-key/then-with_name");
        cx.class_if(collides_own && m.comp.kind % 4 == K_CUSTOM, "collide:own-key/custom-completion");
        cx.class_if(collides_own && m.comp.kind % 4 == K_DEFAULT, "collide:own-key/default-completion");
        cx.class_if(collides_own && m.comp.kind % 4 >= K_RT_OK, "collide:own-key/result-hook-completion");
        cx.class_if(collides_head, "collide:lvl-or-err");
        cx.class_if(collides_head && panic_exit && m.comp.kind % 4 == K_DEFAULT, "collide:lvl-or-err/panic-exit");
        cx.class_if(collides_ids, "collide:id-key");
        cx.class_if(m.props.iter().any(|(k, _)| is_reserved_key(k) && !is_own_key(k) && !is_id_key(k) && k != "lvl" && k != "err"), "collide:metadata-key");
    }
    cx.class_if(c.init_props.iter().any(|(k, _)| is_own_key(key_of(*k))), "collide:own-key-on-start-event");
    cx.class_if(matches!(c.filter, FilterSpec::SpanKindOnly), "A:kind-filter");
    cx.nontrivial((builder_ops >= 2 && n_with_completion > 0) || !verdict || n_starts >= 2 || panic_exit);

    // ---- run the real thing -----------------------------------------------------------------------
    let (guard, frame): (Guard, _) = SpanGuard::new(
        SpecFilter { which: F_RUNTIME, st: st.clone() },
        ctxt(),
        ClockH(st.clone()),
        RngH(st.clone()),
        Comp::new(0, &st, &c.init_comp),
        emit::Empty,
        Path::new_raw(MDLS[idx(c.init_mdl, MDLS.len())]),
        NAMES[idx(c.init_name, NAMES.len())],
        props_box(&c.init_props),
    );

    let run = {
        let st = st.clone();
        move || -> Observed {
            let mut g = guard;
            let mut obs = Observed {
                enabled: vec![(0, g.is_enabled())],
                ret: None,
                panicked: false,
            };
            for (i, op) in c.ops.iter().enumerate() {
                let phase = i as u32 + 1;
                st.phase.set(phase);
                g = match op {
                    Op::WithMdl(x) => g.with_mdl(Path::new_raw(MDLS[idx(*x, MDLS.len())])),
                    Op::WithName(x) => g.with_name(NAMES[idx(*x, NAMES.len())]),
                    Op::WithProps(ps) => g.with_props(props_box(ps)),
                    Op::MapAppend(k, v) => {
                        let kv = (key_of(*k), val_of(*k, *v).value());
                        g.map_props(move |p| Box::new(p.and_props(kv)) as PropsBox)
                    }
                    Op::MapPrepend(k, v) => {
                        let kv = (key_of(*k), val_of(*k, *v).value());
                        g.map_props(move |p| Box::new(kv.and_props(p)) as PropsBox)
                    }
                    Op::WithCompletion(spec) => g.with_completion(Comp::new(phase, &st, spec)),
                    Op::Start => {
                        g.start();
                        g
                    }
                };
                obs.enabled.push((phase, g.is_enabled()));
            }
            st.phase.set(terminal_phase);
            match &c.terminal {
                Terminal::Complete => obs.ret = Some(g.complete()),
                Terminal::CompleteWith(spec) => obs.ret = Some(g.complete_with(Comp::new(COMPLETE_WITH_ID, &st, spec))),
                Terminal::Drop => drop(g),
                Terminal::PanicDrop => {
                    let r = catch_unwind(AssertUnwindSafe(move || {
                        let _held = g;
                        panic!("c05: scripted panic while the guard is alive");
                    }));
                    obs.panicked = r.is_err();
                }
            }
            st.phase.set(terminal_phase + 1);
            obs
        }
    };
    let obs = if c.inside_frame {
        frame.call(run)
    } else {
        let o = run();
        drop(frame);
        o
    };

    // ---- oracle ------------------------------------------------------------------------------------
    let recs = st.recs.borrow().clone();
    let clock_log = st.clock_log.borrow().clone();
    let backwards = clock_log.windows(2).any(|w| matches!((w[0].1, w[1].1), (Some(a), Some(b)) if b < a));
    cx.class_if(backwards, "A:clock-backwards");
    cx.class_if(clock_log.iter().any(|(_, r)| r.is_none()), "A:clock-unavailable");
    cx.class_if(clock_log.windows(2).any(|w| w[0].1.is_some() && w[0].1 == w[1].1), "A:clock-repeated");

    vassert!(cx, !panic_exit || obs.panicked, "harness/panic-not-observed", "scripted panic did not unwind");
    vassert_eq!(cx, ctxt_live_props(), 0usize, "ctxt-not-restored", "ambient context still holds properties after the case");

    // the filter decides once, when the span is created, on the start event
    let evals = st.filters[F_RUNTIME].borrow().evals.clone();
    match evals.first() {
        None => cx.fail("filter-not-consulted", "SpanGuard::new did not consult the filter".to_string())?,
        Some((feat, v)) => {
            vassert!(
                cx,
                *feat == start_feat && *v == verdict,
                "start-filter-verdict-mismatch",
                "the filter {:?} was first shown {:?} and answered {}; the start event should look like {:?} (verdict {})",
                c.filter,
                feat,
                v,
                start_feat,
                verdict
            );
        }
    }
    let filtered_again = evals.iter().skip(1).any(|(_, v)| !*v);

    // a filtered-out span must stay disabled and silent, whatever was done to it
    if !m.enabled {
        let flipped = obs.enabled.iter().find(|(_, e)| *e).map(|(p, _)| *p);
        if !recs.is_empty() || obs.ret == Some(true) || flipped.is_some() {
            let sig = if n_with_completion > 0 {
                "disabled-span-completed"
            } else {
                "disabled-span-completed/without-with_completion"
            };
            cx.fail(
                sig,
                format!(
                    "span rejected by the filter: completions recorded={} (recorders {:?}), complete* returned {:?}, is_enabled() became true after op #{:?}",
                    recs.len(),
                    recs.iter().map(|r| r.recorder).collect::<Vec<_>>(),
                    obs.ret,
                    flipped
                ),
            )?;
            // listed known finding: this case is stepped over
            return Ok(());
        }
        return Ok(());
    }

    for (phase, e) in &obs.enabled {
        vassert!(cx, *e, "is-enabled-mismatch", "is_enabled() false after op #{} on a span that passed the filter", phase);
    }
    if let Some(ret) = obs.ret {
        vassert_eq!(cx, ret, completes, "complete-return-mismatch", "complete*/complete_with returned (enabled={}, started={})", m.enabled, m.started);
    }
    if !completes {
        vassert!(
            cx,
            recs.is_empty(),
            "unstarted-span-completed",
            "never-started span produced {} completion(s) on recorders {:?}",
            recs.len(),
            recs.iter().map(|r| r.recorder).collect::<Vec<_>>()
        );
        return Ok(());
    }

    if recs.is_empty() && filtered_again {
        cx.fail(
            "completion-filtered-again",
            format!(
                "enabled, started span ended by {:?} produced no completion: the filter {:?} accepted the start event, was consulted {} more time(s) and rejected the completion event ({:?})",
                c.terminal,
                c.filter,
                evals.len() - 1,
                evals.last().map(|(f, _)| f)
            ),
        )?;
        return Ok(());
    }
    vassert!(
        cx,
        !recs.is_empty(),
        "completion-missing",
        "enabled, started span ended by {:?} produced no completion",
        c.terminal
    );
    vassert!(
        cx,
        recs.len() == 1,
        "completed-more-than-once",
        "enabled, started span produced {} completions on recorders {:?}",
        recs.len(),
        recs.iter().map(|r| r.recorder).collect::<Vec<_>>()
    );
    let r = &recs[0];
    // would this filter have said something else about the completion event than about the start event?
    if !c.filter.verdict(&r.feat(), 1) {
        cx.class(match c.terminal {
            Terminal::Complete => "differ:complete",
            Terminal::CompleteWith(_) => "differ:complete_with",
            Terminal::Drop => "differ:drop",
            Terminal::PanicDrop => "differ:panic",
        });
        cx.class_if(m.comp.kind % 4 >= K_RT_OK, "differ:A-through-result-hook");
    }
    vassert_eq!(cx, r.recorder, m.comp_id, "wrong-completion", "completion ran on recorder (0 = initial, n = with_completion at op n, 10000 = complete_with)");
    vassert_eq!(cx, r.phase, terminal_phase, "completed-early", "completion ran during op/phase");
    vassert_eq!(cx, r.mdl, m.mdl, "span-mdl-mismatch", "module of the completed span");
    // name and kind are the span's own whatever its properties are called: by enumeration (the first entry of a
    // key is the one that counts) ...
    vassert_eq!(cx, r.prop("span_name").map(|s| s.to_string()), Some(m.name.clone()), "span-name-mismatch", "name of the completed span");
    vassert!(cx, r.prop("evt_kind") == Some("span") && r.kind_is_span, "span-kind-missing", "completed span does not carry evt_kind=span: {:?}", r.props);
    // ... and by keyed lookup (get / pull, generic and erased, through And chains, the kind filters, Span::name())
    keyed(cx, r, "span_name", Some(m.name.as_str()), "span-name-mismatch/keyed-lookup", "the span's name")?;
    keyed(cx, r, "evt_kind", Some("span"), "span-kind-mismatch/keyed-lookup", "the span's kind")?;
    vassert_eq!(cx, r.name_pulled, Some(m.name.clone()), "span-name-mismatch/keyed-lookup", "pull::<Str>(\"span_name\") on the completed event (enumeration: {:?})", r.props);
    vassert!(
        cx,
        r.span_filter_matches && !r.metric_filter_matches,
        "span-kind-mismatch/keyed-lookup",
        "kind filters on the completed span event: is_span_filter matches={} is_metric_filter matches={} (enumeration: {:?})",
        r.span_filter_matches,
        r.metric_filter_matches,
        r.props
    );
    if let Some(n) = &r.span_name_accessor {
        vassert_eq!(cx, *n, m.name, "span-name-mismatch", "Span::name() seen by the completion");
    }
    // the span's properties: all of them, in order, duplicates included, whatever their keys
    vassert_eq!(cx, r.user_props_given(&m.props), m.props, "span-props-mismatch", "properties of the completed span (enumeration {:?})", r.props);

    // extent
    let start = st.readings(m.start_phase.unwrap());
    let end = st.readings(terminal_phase);
    match judge_extent(r.extent, &start, &end) {
        Ok(true) => cx.dont_care(),
        Ok(false) => {}
        Err(e) => cx.fail("extent-mismatch", e)?,
    }
    cx.class_if(matches!(r.extent, Some((true, a, b)) if b < a), "A:extent-backwards");
    cx.class_if(r.extent.is_none(), "A:extent-none");

    // panic / level clauses (only emit's default completion adds them)
    vassert_eq!(cx, r.panicking, panic_exit, "harness/panicking-flag", "thread::panicking() at completion");
    let kind = m.comp.kind % 4;
    // a span property called `lvl` / `err` (the first one counts) shows through where the completion assigns none
    let user_lvl = first_of(&m.props, "lvl").and_then(|s| s.parse::<emit::Level>().ok());
    let user_err = first_of(&m.props, "err");
    // what the completion itself assigns; it takes precedence over same-named span properties
    let mut head: Vec<(&str, String)> = Vec::new();
    if kind == K_RT_OK || kind == K_RT_ERR {
        vassert!(cx, r.via_emitter, "harness/route", "result completion did not go through the emitter");
        let lvl = m.comp.lvl.map(|l| LEVELS[idx(l, 4)]);
        if kind == K_RT_OK {
            // no level configured: a span property called `lvl` is the only level there is
            vassert_eq!(cx, r.lvl, lvl.or(user_lvl), "ok-level-mismatch", "level of a span completed through the Ok completion");
            vassert_eq!(cx, r.prop("err"), user_err, "unexpected-err", "err of a span completed through the Ok completion (only a span property called err may be there): {:?}", r.props);
            head = lvl.map(|l| ("lvl", l.to_string())).into_iter().collect();
        } else {
            vassert_eq!(cx, r.lvl, Some(lvl.unwrap_or(emit::Level::Error)), "err-level-mismatch", "level of a span completed through the Err completion");
            vassert_eq!(cx, r.prop("err"), Some("a-err"), "err-missing", "err of a span completed through the Err completion");
            head = vec![("lvl", lvl.unwrap_or(emit::Level::Error).to_string()), ("err", "a-err".to_string())];
        }
        vassert_eq!(cx, r.tpl.as_str(), RT_TPL, "template-mismatch", "template of a span completed through a Result completion");
    }
    if kind == K_DEFAULT {
        vassert!(cx, r.via_emitter, "harness/route", "default completion did not go through the emitter");
        let b = &m.comp;
        cx.class_if(b.builder.len() >= 2, "builder:>=2-setters");
        cx.class_if(b.panic_lvl_before_tpl(), "builder:with_panic_lvl-before-with_tpl");
        cx.class_if(b.panic_lvl_before_tpl() && panic_exit, "builder:with_panic_lvl-before-with_tpl/panic-exit");
        cx.class_if(b.lvl_before_other(), "builder:with_lvl-before-other-setter");
        cx.class_if(b.builder.iter().filter(|s| matches!(s, Setter::PanicLvl(_))).count() >= 2, "builder:setter-repeated");
        cx.class_if(b.ctor % 2 == 1, "builder:Default::new");
        cx.class_if(matches!(c.terminal, Terminal::CompleteWith(_)), "builder:through-complete_with");
        vassert_eq!(
            cx,
            r.tpl.as_str(),
            b.last_tpl().unwrap_or(DEFAULT_END_TPL),
            "template-mismatch",
            "template of a span completed by completion::Default built with {:?}",
            b.builder
        );
        if panic_exit {
            let want = b.last_panic_lvl().unwrap_or(emit::Level::Error);
            vassert_eq!(cx, r.lvl, Some(want), "panic-level-mismatch", "level of a span completed by unwinding (completion::Default built with {:?})", b.builder);
            // the error the unwinding adds, not a span property that happens to be called err
            let n_err = r.props.iter().filter(|(k, _)| k == "err").count();
            let n_user_err = m.props.iter().filter(|(k, _)| k == "err").count();
            vassert!(cx, n_err > n_user_err, "panic-err-missing", "span completed by unwinding carries no err of its own: {:?}", r.props);
            head = vec![("lvl", want.to_string()), ("err", r.prop("err").unwrap_or("").to_string())];
        } else {
            vassert_eq!(cx, r.lvl, b.last_lvl().or(user_lvl), "level-mismatch", "level of a normally completed span (completion::Default built with {:?})", b.builder);
            vassert_eq!(cx, r.prop("err"), user_err, "unexpected-err", "err of a normally completed span (only a span property called err may be there): {:?}", r.props);
            head = b.last_lvl().map(|l| ("lvl", l.to_string())).into_iter().collect();
        }
    }

    // keyed lookup of every other key: what the completion assigns, else the span's first property of that name,
    // else (ids) the span context of the frame, else nothing
    for key in KEYS {
        if is_own_key(key) {
            continue;
        }
        let from_head = head.iter().find(|(k, _)| *k == key).map(|(_, v)| v.as_str());
        let from_user = first_of(&m.props, key);
        if is_id_key(key) && kind != K_CUSTOM {
            // a property named like an id key next to the frame's span context: both are carried (checked by
            // enumeration); which of them a keyed lookup answers is not stated
            if from_user.is_some() {
                cx.dont_care();
            }
            continue;
        }
        let sig = if key == "lvl" || key == "err" { "level-or-err-mismatch/keyed-lookup" } else { "span-props-mismatch/keyed-lookup" };
        keyed(cx, r, key, from_head.or(from_user), sig, "what the completion assigns, else the span's first property of that name,")?;
    }

    // ids: when completed inside its frame the ambient context carries the ids the span was created with
    if c.inside_frame {
        let seen = st.filter_seen.borrow().first().copied();
        let hex_t = r.cur_trace.map(|t| format!("{:032x}", t));
        let hex_s = r.cur_span.map(|s| format!("{:016x}", s));
        if init_user.iter().any(|(k, _)| is_id_key(k)) {
            // the span was constructed with a property named like an id key: what the filter's keyed lookup of
            // that key answered is open; the ids the span was created with are those among the id entries the
            // filter was shown (by enumeration) that are not that property
            let shown: Vec<(String, String)> = st.filter_seen_ids.borrow().first().cloned().unwrap_or_default();
            let created = |key: &str| shown.iter().find(|(k, v)| k == key && !is_generated_id_val(v)).map(|(_, v)| v.clone());
            let (t, s) = (created("trace_id"), created("span_id"));
            if c.rng_avail {
                vassert!(cx, t.is_some() && s.is_some(), "ids-not-generated", "rng available but the span was created with trace={:?} span={:?}", t, s);
            }
            vassert_eq!(cx, (hex_t.clone(), hex_s.clone()), (t, s), "ids-missing-at-completion", "ids in the ambient context at completion vs ids the span was created with");
            cx.class("collide:id-key-on-start-event");
        } else if let Some((t, s)) = seen {
            if c.rng_avail {
                vassert!(cx, t.is_some() && s.is_some(), "ids-not-generated", "rng available but span ctxt has trace={:?} span={:?}", t, s);
            }
            vassert_eq!(cx, (r.cur_trace, r.cur_span), (t, s), "ids-missing-at-completion", "ids in the ambient context at completion vs ids the span was created with");
        }
        if seen.is_some() {
            if kind != K_CUSTOM && r.cur_trace.is_some() && r.cur_span.is_some() {
                // carried: some trace_id / span_id entry of the event is the id of the frame
                let has = |key: &str, want: &Option<String>| r.props.iter().any(|(k, v)| k == key && Some(v) == want.as_ref());
                vassert!(
                    cx,
                    has("trace_id", &hex_t) && has("span_id", &hex_s),
                    "ids-missing-on-event",
                    "event emitted by the default completion inside the frame lacks its ids ({:?} {:?}): {:?}",
                    hex_t,
                    hex_s,
                    r.props
                );
                if !collides_ids {
                    keyed(cx, r, "trace_id", hex_t.as_deref(), "ids-missing-on-event/keyed-lookup", "the id of the frame")?;
                    keyed(cx, r, "span_id", hex_s.as_deref(), "ids-missing-on-event/keyed-lookup", "the id of the frame")?;
                }
            }
        } else {
            cx.fail("filter-not-consulted", "SpanGuard::new did not consult the filter".to_string())?;
        }
    } else {
        cx.dont_care();
    }
    Ok(())
}
