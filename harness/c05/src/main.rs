// stub: check for C05 not built yet
fn main() {
    eprintln!("C05: check not built yet");
    std::process::exit(2);
}
