use c05::api::{self, CaseA, CompSpec, Op, Terminal};
use c05::forms::{self, CaseB};
use vcore::proptest::prelude::*;

const RULE: &str = "Domain A (api-sequences): a SpanGuard built by SpanGuard::new with a generated filter verdict is held at one fixed erased type and driven by a generated sequence of 0..=10 operations (with_mdl, with_name, with_props, map_props append/prepend, with_completion(k) with custom or emit's default completion, start) followed by a terminal (complete, complete_with(k), drop, drop while unwinding), inside or outside its frame, over a scripted clock (one entry per now() call: small/large/backwards/repeated/unavailable readings) and a counter or unavailable rng. Domain B (macro-forms): 15 fixed call sites compiled with the real macros (span/debug_/info_/warn_/error_span on sync and async fns, guard parameter, ok_lvl/err_lvl/err/panic_lvl, mdl, new_info_span!) against an explicit runtime, with generated verdict, clock, rng and exit path (fallthrough, early return, return Err, ? on Err, tail Err, panic, cancelled future, explicit complete/complete_with/with_completion/rename/early drop/complete-then-panic through the guard, new_span with 0/1/2 starts). Non-trivial = (A) at least 2 builder operations including a with_completion, or a span rejected by the filter, or start called more than once, or drop during unwinding; (B) a rejected span or any exit path other than plain fallthrough.";

fn comp_spec() -> impl Strategy<Value = CompSpec> {
    (any::<bool>(), prop::option::of(0u8..4), prop::option::of(0u8..4)).prop_map(|(default, lvl, panic_lvl)| CompSpec { default, lvl, panic_lvl })
}

fn props_spec() -> impl Strategy<Value = Vec<(u8, i8)>> {
    prop::collection::vec((0u8..6, any::<i8>()), 0..4)
}

fn clock_script() -> impl Strategy<Value = Vec<Option<u32>>> {
    let reading = prop_oneof![
        5 => (0u32..6).prop_map(Some),
        2 => any::<u32>().prop_map(Some),
        1 => Just(Some(0u32)),
        2 => Just(None),
    ];
    prop_oneof![
        // long enough for every now() call of the case
        4 => prop::collection::vec(reading.clone(), 2..6),
        // may run out: later readings are unavailable
        1 => prop::collection::vec(reading, 0..3),
        // plain monotone clock
        2 => (0u32..1000, 0u32..1000, 0u32..1000).prop_map(|(a, b, c)| vec![Some(a), Some(a + b), Some(a + b + c), Some(a + b + c + 1)]),
    ]
}

fn case_a() -> impl Strategy<Value = CaseA> {
    let op = prop_oneof![
        1 => (0u8..5).prop_map(Op::WithMdl),
        1 => (0u8..6).prop_map(Op::WithName),
        1 => props_spec().prop_map(Op::WithProps),
        1 => (0u8..6, any::<i8>()).prop_map(|(k, v)| Op::MapAppend(k, v)),
        1 => (0u8..6, any::<i8>()).prop_map(|(k, v)| Op::MapPrepend(k, v)),
        2 => comp_spec().prop_map(Op::WithCompletion),
        3 => Just(Op::Start),
    ];
    let terminal = prop_oneof![
        2 => Just(Terminal::Complete),
        2 => comp_spec().prop_map(Terminal::CompleteWith),
        3 => Just(Terminal::Drop),
        2 => Just(Terminal::PanicDrop),
    ];
    (
        (prop::bool::weighted(0.65), prop::bool::weighted(0.8), prop::bool::weighted(0.85), any::<u32>()),
        clock_script(),
        (comp_spec(), 0u8..6, 0u8..5, props_spec()),
        prop::collection::vec(op, 0..=10),
        terminal,
    )
        .prop_map(|((verdict, inside_frame, rng_avail, rng_seed), clock, (init_comp, init_name, init_mdl, init_props), ops, terminal)| CaseA {
            verdict,
            inside_frame,
            rng_avail,
            rng_seed,
            clock,
            init_comp,
            init_name,
            init_mdl,
            init_props,
            ops,
            terminal,
        })
}

fn case_b() -> impl Strategy<Value = CaseB> {
    (
        0u8..forms::SITES.len() as u8,
        any::<u32>(),
        prop::bool::weighted(0.7),
        prop::bool::weighted(0.85),
        any::<u32>(),
        clock_script(),
        any::<i32>(),
    )
        .prop_map(|(site, exit, verdict, rng_avail, rng_seed, clock, x)| CaseB { site, exit, verdict, rng_avail, rng_seed, clock, x })
}

fn d2_probe(terminal: Terminal) -> CaseA {
    let plain = CompSpec { default: false, lvl: None, panic_lvl: None };
    CaseA {
        verdict: false,
        inside_frame: true,
        rng_avail: true,
        rng_seed: 1,
        clock: vec![Some(1), Some(2)],
        init_comp: plain.clone(),
        init_name: 0,
        init_mdl: 0,
        init_props: vec![],
        ops: vec![Op::WithCompletion(plain), Op::Start],
        terminal,
    }
}

fn main() {
    vcore::run(
        "C05",
        vcore::Level::Exploration,
        RULE,
        &[
            "the reading 'taken at start' is the one the clock delivered during the first start() call, the reading 'taken at completion' the one delivered during the terminal operation; later start() calls do not restart the span (rustdoc: start only begins an unstarted span)",
            "when the clock has no reading at completion the extent is expected to be absent (Timer::extent rustdoc); when only the start reading is unavailable, or the Result-aware completions fall back to a point extent, the outcome is don't-care",
            "levels follow the macro docs and the repository's ui tests: ok -> ok_lvl, else the macro's own level, else none; Err -> err_lvl, else the macro's own level, else error, with err attached; panic -> panic_lvl, else error, with err attached; everything else -> the macro's own level or none",
            "ids: inside its frame the ambient context (and therefore the emitted span event) carries exactly the trace/span id the span was created with (as shown to the filter); spans completed outside their frame (guard run outside frame.call, cancelled futures) are don't-care for ids",
            "whether err is attached when a plain span (no ok_lvl/err_lvl/err) wraps a function returning Err is don't-care",
            "attribute macros on block expressions need unstable rustc features (stmt_expr_attributes / proc_macro_hygiene) and cannot be compiled by the stable toolchain this harness uses; block forms are therefore not among the call sites (they share inject_sync/inject_async with the fn forms)",
        ],
        |s| {
            s.require("A:disabled+with_completion", 5000);
            s.require("A:panic-drop", 5000);
            s.require("A:panic-drop-completing", 2000);
            s.require("A:repeated-start", 5000);
            s.require("A:clock-backwards", 2000);
            s.require("A:clock-unavailable", 2000);
            s.require("B:panic", 1000);
            s.require("B:disabled", 1000);
            s.require("B:err-exit", 1000);
            s.require("B:question-mark", 300);
            s.require("B:cancelled-future", 300);
            s.require("B:guard-param", 1000);
            // a fixed probe for the class of defect D2 (with_completion on a filtered-out guard), so that
            // the strongest manifestation (an actual completion) is shown whatever the shrinker lands on
            s.manual("probe-disabled-with_completion", vec![d2_probe(Terminal::Drop), d2_probe(Terminal::Complete), d2_probe(Terminal::PanicDrop)], api::check_api);
            s.gen("api-sequences", s.n(500_000, 10_000_000), case_a, api::check_api);
            s.gen("macro-forms", s.n(100_000, 2_000_000), case_b, forms::check_form);
        },
    )
}
