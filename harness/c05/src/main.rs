use c05::api::{self, CaseA, CompSpec, Op, Setter, Terminal};
use c05::forms::{self, CaseB};
use c05::rec::FilterSpec;
use vcore::proptest::prelude::*;

const RULE: &str = "Domain A (api-sequences): a SpanGuard built by SpanGuard::new with a GENERATED FILTER (accept-all, reject-all, min-level L, accepts-only-events-without-extent, accepts-only-the-first-n-evaluations, rejects-events-carrying-err, keyed on the template text) is held at one fixed erased type and driven by a generated sequence of 0..=10 operations (with_mdl, with_name, with_props, map_props append/prepend, with_completion(k), start; PROPERTY KEYS are drawn from plain user keys AND from keys that collide with emit's well-known keys - the span's own span_name / evt_kind, the lvl / err a completion may add, the trace_id / span_id / span_parent of the frame, and ts / ts_start / mdl / tpl / msg / metric_* - with values that look like legitimate values of those keys, given to SpanGuard::new, installed by with_props / map_props, before or after with_name) followed by a terminal (complete, complete_with(k), drop, drop while unwinding), inside or outside its frame, over a scripted clock (one entry per now() call: small/large/backwards/repeated/unavailable readings) and a counter or unavailable rng; a completion k is a recording custom completion, emit's completion::Default (built by completion::default(..) or Default::new(..) followed by a GENERATED SEQUENCE of builder calls with_lvl(L) / with_panic_lvl(P) / with_tpl(T), each 0..=2 times in any order), or the Result-aware Ok/Err completions the span macros hand to complete_with, over an explicit runtime whose filter is the case's filter. Every completed event is read both by enumeration (for_each) and by keyed lookup (get / pull on the event's props, through &dyn ErasedProps, Event::erase, an And chain, emit::kind::is_span_filter / is_metric_filter, and - for custom completions - on the bare Span and Span::erase). The generated filters include a kind-based one (accepts only evt_kind = span by keyed lookup). Domain B (macro-forms): 20 fixed call sites compiled with the real macros (span/debug_/info_/warn_/error_span on sync and async fns, guard parameter, ok_lvl/err_lvl/err/panic_lvl, mdl, new_info_span!, four sites with a call-site when: filter, and a guard site whose literal macro properties are called span_name / evt_kind) against an explicit runtime, with generated runtime filter and when: filter (same kinds as above), clock, rng and exit path (fallthrough, early return, return Err, ? on Err, tail Err, panic, cancelled future, explicit complete/complete_with/with_completion/rename + re-propertying (two generated properties out of p, q, span_name, evt_kind, lvl, err, trace_id, span_id; with_name before or after with_props/map_props)/early drop/complete-then-panic through the guard, new_span with 0/1/2 starts). 'Passed the filter' is decided by the deciding filter's verdict on the span's START event only. Non-trivial = (A) at least 2 builder operations including a with_completion, or a span rejected by the filter, or start called more than once, or drop during unwinding; (B) a rejected span or any exit path other than plain fallthrough.";

fn comp_spec() -> impl Strategy<Value = CompSpec> {
    // 0 custom, 1 emit's default completion, 2 / 3 the macros' Ok / Err completions over the case's runtime
    let kind = prop_oneof![3 => Just(0u8), 3 => Just(1u8), 1 => Just(2u8), 1 => Just(3u8)];
    let setter = prop_oneof![
        2 => (0u8..4).prop_map(Setter::Lvl),
        3 => (0u8..4).prop_map(Setter::PanicLvl),
        3 => (0u8..3).prop_map(Setter::Tpl),
    ];
    (kind, prop::option::of(0u8..4), 0u8..2, prop::collection::vec(setter, 0..=6)).prop_map(|(kind, lvl, ctor, raw)| {
        // constructive: each kind of builder call at most twice, order kept
        let mut n = [0u8; 3];
        let builder = raw
            .into_iter()
            .filter(|s| {
                let k = match s {
                    Setter::Lvl(_) => 0,
                    Setter::PanicLvl(_) => 1,
                    Setter::Tpl(_) => 2,
                };
                n[k] += 1;
                n[k] <= 2
            })
            .collect();
        CompSpec { kind, lvl, panic_lvl: None, ctor, builder }
    })
}

/// `p_reject`-ish mix: constant filters plus filters whose verdict depends on what distinguishes a span's
/// start event from its completion event (level, extent, err, template) or on the evaluation count.
fn filter_spec() -> impl Strategy<Value = FilterSpec> {
    prop_oneof![
        6 => Just(FilterSpec::AcceptAll),
        3 => Just(FilterSpec::RejectAll),
        3 => (0u8..4).prop_map(FilterSpec::MinLevel),
        2 => Just(FilterSpec::NoExtentOnly),
        2 => (0u8..4).prop_map(FilterSpec::FirstN),
        1 => Just(FilterSpec::NoErr),
        3 => (0u8..6, any::<bool>()).prop_map(|(n, a)| FilterSpec::Tpl(n, a)),
        1 => Just(FilterSpec::SpanKindOnly),
    ]
}

/// A property key (index into `rec::KEYS`): plain user keys, and keys that COLLIDE with emit's well-known keys - the
/// span's own (`span_name`, `evt_kind`), the ones a completion may add (`lvl`, `err`), the ids of the frame
/// (`trace_id`, `span_id`, `span_parent`) and event-metadata / metric names (`ts`, `ts_start`, `mdl`, `tpl`, `msg`,
/// `metric_*`).
fn prop_key() -> impl Strategy<Value = u8> {
    prop_oneof![
        10 => 0u8..6,
        5 => 6u8..8,
        2 => 8u8..10,
        2 => 10u8..13,
        1 => 13u8..21,
    ]
}

fn props_spec() -> impl Strategy<Value = Vec<(u8, i8)>> {
    prop::collection::vec((prop_key(), any::<i8>()), 0..4)
}

fn clock_script() -> impl Strategy<Value = Vec<Option<u32>>> {
    let reading = prop_oneof![
        5 => (0u32..6).prop_map(Some),
        2 => any::<u32>().prop_map(Some),
        1 => Just(Some(0u32)),
        2 => Just(None),
    ];
    prop_oneof![
        // long enough for every now() call of the case
        4 => prop::collection::vec(reading.clone(), 2..6),
        // may run out: later readings are unavailable
        1 => prop::collection::vec(reading, 0..3),
        // plain monotone clock
        2 => (0u32..1000, 0u32..1000, 0u32..1000).prop_map(|(a, b, c)| vec![Some(a), Some(a + b), Some(a + b + c), Some(a + b + c + 1)]),
    ]
}

fn case_a() -> impl Strategy<Value = CaseA> {
    let op = prop_oneof![
        1 => (0u8..5).prop_map(Op::WithMdl),
        1 => (0u8..6).prop_map(Op::WithName),
        1 => props_spec().prop_map(Op::WithProps),
        1 => (prop_key(), any::<i8>()).prop_map(|(k, v)| Op::MapAppend(k, v)),
        1 => (prop_key(), any::<i8>()).prop_map(|(k, v)| Op::MapPrepend(k, v)),
        2 => comp_spec().prop_map(Op::WithCompletion),
        3 => Just(Op::Start),
    ];
    let terminal = prop_oneof![
        2 => Just(Terminal::Complete),
        2 => comp_spec().prop_map(Terminal::CompleteWith),
        3 => Just(Terminal::Drop),
        2 => Just(Terminal::PanicDrop),
    ];
    (
        (filter_spec(), prop::bool::weighted(0.8), prop::bool::weighted(0.85), any::<u32>()),
        clock_script(),
        (comp_spec(), 0u8..6, 0u8..5, props_spec()),
        prop::collection::vec(op, 0..=10),
        terminal,
    )
        .prop_map(|((filter, inside_frame, rng_avail, rng_seed), clock, (init_comp, init_name, init_mdl, init_props), ops, terminal)| CaseA {
            filter,
            inside_frame,
            rng_avail,
            rng_seed,
            clock,
            init_comp,
            init_name,
            init_mdl,
            init_props,
            ops,
            terminal,
        })
}

fn case_b() -> impl Strategy<Value = CaseB> {
    (
        0u8..forms::SITES.len() as u8,
        any::<u32>(),
        (filter_spec(), filter_spec()),
        prop::bool::weighted(0.85),
        any::<u32>(),
        clock_script(),
        (any::<i32>(), 0u8..128),
    )
        .prop_map(|(site, exit, (filter, when), rng_avail, rng_seed, clock, (x, rename))| CaseB { site, exit, filter, when, rng_avail, rng_seed, clock, x, rename })
}

fn d2_probe(terminal: Terminal) -> CaseA {
    let plain = CompSpec { kind: 0, lvl: None, panic_lvl: None, ctor: 0, builder: vec![] };
    CaseA {
        filter: FilterSpec::RejectAll,
        inside_frame: true,
        rng_avail: true,
        rng_seed: 1,
        clock: vec![Some(1), Some(2)],
        init_comp: plain.clone(),
        init_name: 0,
        init_mdl: 0,
        init_props: vec![],
        ops: vec![Op::WithCompletion(plain), Op::Start],
        terminal,
    }
}

fn main() {
    vcore::run(
        "C05",
        vcore::Level::Exploration,
        RULE,
        &[
            "the reading 'taken at start' is the one the clock delivered during the first start() call, the reading 'taken at completion' the one delivered during the terminal operation; later start() calls do not restart the span (rustdoc: start only begins an unstarted span)",
            "when the clock has no reading at completion the extent is expected to be absent (Timer::extent rustdoc); when only the start reading is unavailable, or the Result-aware completions fall back to a point extent, the outcome is don't-care",
            "levels follow the macro docs and the repository's ui tests: ok -> ok_lvl, else the macro's own level, else none; Err -> err_lvl, else the macro's own level, else error, with err attached; panic -> panic_lvl, else error, with err attached; everything else -> the macro's own level or none",
            "ids: inside its frame the ambient context (and therefore the emitted span event) carries exactly the trace/span id the span was created with (as shown to the filter); spans completed outside their frame (guard run outside frame.call, cancelled futures) are don't-care for ids",
            "whether err is attached when a plain span (no ok_lvl/err_lvl/err) wraps a function returning Err is don't-care",
            "a span is enabled iff the deciding filter (the call-site when: filter if the site has one, else the runtime's filter; the filter given to SpanGuard::new in domain A) accepts the span's START event: the macro's own level (none in domain A), no extent, no err, template \"{span_name} started\"; what any filter would say about the COMPLETION event (its level, extent, err, template, or a later evaluation count) is irrelevant: the completion must arrive exactly once. Consulting a filter again is not itself a violation; a completion that is missing after a filter rejected a later evaluation is reported as completion-filtered-again",
            "completion::Default builder: the last call of a kind wins and no call resets what another kind set: non-panic exit -> lvl = last with_lvl value (none if never called); unwinding -> lvl = last with_panic_lvl value, else error, with err; template = last with_tpl value, else \"{span_name} completed\"",
            "name and kind: the completed event's span_name is the guard's current name and its evt_kind is span whatever the span's properties are called - by enumeration (the first entry of a key counts, the Props contract) and by every keyed lookup; the same holds for the start event shown to the filter (SpanGuard::new rustdoc: 'a Span carrying the generated span context, but without an extent')",
            "properties: all of the span's own properties are carried in order, duplicates included, whatever their keys; a keyed lookup of a key answers what the completion assigns (lvl, err), else the span's first property of that name; a property called lvl / err is therefore the level / error of the event exactly where the completion assigns none (also on the start event the filter sees); a level / err the completion assigns (panic level and error - property text; configured lvl, Ok/Err levels and err - macro docs) takes precedence over a same-named property",
            "a span property called trace_id / span_id / span_parent next to the frame's span context: both must be carried (enumeration); which one a keyed lookup answers is don't-care, and the ids 'the span was created with' are then taken from the id entries the filter was shown by enumeration",
            "attribute macros on block expressions need unstable rustc features (stmt_expr_attributes / proc_macro_hygiene) and cannot be compiled by the stable toolchain this harness uses; block forms are therefore not among the call sites (they share inject_sync/inject_async with the fn forms)",
        ],
        |s| {
            s.require("A:disabled+with_completion", 5000);
            s.require("A:panic-drop", 5000);
            s.require("A:panic-drop-completing", 2000);
            s.require("A:repeated-start", 5000);
            s.require("A:clock-backwards", 2000);
            s.require("A:clock-unavailable", 2000);
            s.require("B:panic", 1000);
            s.require("B:disabled", 1000);
            s.require("B:err-exit", 1000);
            s.require("B:question-mark", 300);
            s.require("B:cancelled-future", 300);
            s.require("B:guard-param", 1000);
            // the filter's verdict on the COMPLETION event would differ from its verdict on the start event
            s.require("differ:ok-exit", 200);
            s.require("differ:err-exit", 300);
            s.require("differ:drop", 2000);
            s.require("differ:panic", 1500);
            s.require("differ:complete", 1000);
            s.require("differ:complete_with", 1000);
            s.require("differ:A-through-result-hook", 1000);
            // the builder call sequence of emit's default completion
            s.require("builder:>=2-setters", 5000);
            s.require("builder:with_panic_lvl-before-with_tpl", 2000);
            s.require("builder:with_panic_lvl-before-with_tpl/panic-exit", 500);
            // span properties whose keys collide with emit's well-known keys, on completing spans
            s.require("collide:span_name", 5000);
            s.require("collide:evt_kind", 5000);
            s.require("collide:own-key/given-to-new", 4000);
            s.require("collide:own-key/by-with_props", 3000);
            s.require("collide:own-key/by-map_props", 4000);
            s.require("collide:own-key/then-with_name", 3000);
            s.require("collide:own-key/custom-completion", 4000);
            s.require("collide:own-key/default-completion", 4000);
            s.require("collide:own-key/result-hook-completion", 2500);
            s.require("collide:own-key-on-start-event", 15000);
            s.require("collide:lvl-or-err", 5000);
            s.require("collide:lvl-or-err/panic-exit", 400);
            s.require("collide:id-key", 5000);
            s.require("collide:metadata-key", 2500);
            s.require("A:kind-filter", 2000);
            s.require("B:rename-with-props-named-span_name-or-evt_kind", 70);
            s.require("B:macro-props-named-span_name-evt_kind", 250);
            s.require("B:when-accepts-over-rejecting-runtime-filter", 400);
            s.require("B:when-rejects-over-accepting-runtime-filter", 400);
            // a fixed probe for the class of defect D2 (with_completion on a filtered-out guard), so that
            // the strongest manifestation (an actual completion) is shown whatever the shrinker lands on
            s.manual("probe-disabled-with_completion", vec![d2_probe(Terminal::Drop), d2_probe(Terminal::Complete), d2_probe(Terminal::PanicDrop)], api::check_api);
            s.gen("api-sequences", s.n(500_000, 10_000_000), case_a, api::check_api);
            s.gen("macro-forms", s.n(100_000, 2_000_000), case_b, forms::check_form);
        },
    )
}
