#!/usr/bin/env bash
# tools/seeded_lane.sh <log> "<ID> <crate-dir> <pkg> <demo.rs> <name> [features]" ...
# For each entry: clean the scratch worktree /tmp/seed-<ID>, confirm the change (tools/seeded_confirm.sh), keep it
# (tools/seeded_keep.sh runs the quick check against it in a scratch copy). Results are appended to <log>.
LOG="$1"; shift
for e in "$@"; do
  set -- $e
  ID="$1"; CRATE="$2"; PKG="$3"; DEMO="$4"; NAME="$5"; FEAT="${6:-}"
  echo "=== $NAME" >>"$LOG"
  (cd "/tmp/seed-$ID" && git checkout -q -- . && git clean -fdq -e _out -e target)
  FEATURES="$FEAT" /verif/tools/seeded_confirm.sh "$ID" "$CRATE" "$PKG" "$DEMO" >>"$LOG" 2>&1
  /verif/tools/seeded_keep.sh "$ID" "$NAME" >>"$LOG" 2>&1
done
echo "LANE-DONE" >>"$LOG"
