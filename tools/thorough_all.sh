#!/usr/bin/env bash
# tools/thorough_all.sh <log> <ID>...   -- thorough tier of the given checks, one after another, on the unchanged tree
LOG="$1"; shift
cd /verif
for id in "$@"; do
  t0=$(date +%s)
  out=$(./check $id --tier thorough 2>&1); rc=$?
  v=$(echo "$out" | grep -c "^VIOLATION")
  echo "$(date -u +%H:%M:%S) $id thorough rc=$rc violations=$v secs=$(( $(date +%s) - t0 )) $(echo "$out" | grep -E "^\[$id\] evaluations" | tail -1)" >> "$LOG"
  if [ $rc -ne 0 ] || [ $v -ne 0 ]; then echo "$out" | tail -40 > "$LOG.$id.fail"; fi
done
echo "THOROUGH-DONE" >> "$LOG"
