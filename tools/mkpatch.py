#!/usr/bin/env python3
"""mkpatch.py <out.patch> <repo-relative-file> <old> <new> [<old> <new> ...]  -- build a unified diff against /repo by literal replacement"""
import sys, difflib
out, rel = sys.argv[1], sys.argv[2]
src = open('/repo/' + rel).read()
new = src
pairs = sys.argv[3:]
for i in range(0, len(pairs), 2):
    old, rep = pairs[i], pairs[i+1]
    if new.count(old) != 1:
        sys.exit(f"pattern occurs {new.count(old)} times: {old[:60]!r}")
    new = new.replace(old, rep)
d = difflib.unified_diff(src.splitlines(True), new.splitlines(True), 'a/' + rel, 'b/' + rel)
open(out, 'w').write(''.join(d))
