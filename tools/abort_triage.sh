#!/usr/bin/env bash
# tools/abort_triage.sh <ID> <check-binary> <captured-stdout-file> <rc>
# The check process was killed by a fatal signal raised by the code under test (double panic, panic in a Drop on
# a foreign thread, stack overflow). vcore's signal handler wrote the cases that were in flight as replay files and
# printed one ABORTED-WHILE line each. Re-run each in its own process to attribute the abort; it is reported as a
# violation either way. Returns 1 (VIOLATION printed) or 0 (nothing to triage).
ID="$1"; BIN="$2"; OUT="$3"; rc="$4"
# exit code 97: vcore's monitor found a case that did not return within the limit the check set with
# hang_is_violation (properties that promise "never blocks"). Replay it alone: a violation only if it hangs again.
if [ "$rc" -eq 97 ] && grep -q "^HUNG-WHILE " "$OUT"; then
  first=""
  while read -r cand; do
    [ -z "$first" ] && first="$cand"
    timeout -k 10 1200 "$BIN" replay "$cand" >"$OUT.replay" 2>&1; rrc=$?
    if [ $rrc -eq 1 ] || { [ $rrc -ge 129 ] && [ $rrc -ne 137 ]; }; then
      echo "VIOLATION property=$ID replay=$cand"
      echo "  reason=the case never returns (the code under test blocks for ever); reproduced by replaying this case alone"
      exit 1
    fi
  done < <(grep "^HUNG-WHILE " "$OUT" | sed 's/.* replay=//' | awk '!seen[$0]++' | head -8)
  echo "INCONCLUSIVE: a case of $ID exceeded its time limit but returned when replayed alone ($first)" >&2
  exit 2
fi
[ "$rc" -ge 129 ] && [ "$rc" -ne 137 ] && grep -q "^ABORTED-WHILE " "$OUT" || exit 0
first=""; found=""
while read -r cand; do
  [ -z "$first" ] && first="$cand"
  timeout -k 10 600 "$BIN" replay "$cand" >"$OUT.replay" 2>&1; rrc=$?
  if [ $rrc -eq 1 ] || { [ $rrc -ge 129 ] && [ $rrc -ne 137 ]; }; then found="$cand"; break; fi
done < <(grep "^ABORTED-WHILE " "$OUT" | sort -t= -k3,3r | sed 's/.* replay=//' | awk '!seen[$0]++')
if [ -n "$found" ]; then
  echo "VIOLATION property=$ID replay=$found"
  echo "  reason=the check process was aborted (exit $rc) by the code under test; reproduced by replaying this case alone"
else
  echo "VIOLATION property=$ID replay=$first"
  echo "  reason=the check process was aborted (exit $rc) by the code under test while this case (and possibly others) was in flight; replaying the cases one at a time did not abort again"
fi
exit 1
