#!/usr/bin/env bash
# tools/mutant.sh <ID> <patch-file|-> [check args...]
# Sensitivity check (DESIGN §1.9): apply a patch to a scratch copy of /repo, point a scratch copy of the
# harness at it, run the quick check of <ID>. Prints the check's exit code as "MUTANT-RESULT <ID> <patch> rc=<n>".
# rc=1 means the mutant was detected (good). Scratch lives under /root/scratch/mut-<ID>[-$MUT_TAG]; the repo copy is
# refreshed from /repo's working tree for every patch, the cargo target dir is kept between patches for
# incremental builds. Remove the directory when done:  rm -rf /root/scratch/mut-<ID>*
set -u
ID="$1"; PATCH="$2"; shift 2
PKG="$(echo "$ID" | tr 'A-Z' 'a-z')"
S="/root/scratch/mut-$ID${MUT_TAG:+-$MUT_TAG}"
mkdir -p "$S/verif"
# no -t: a file reverted from a previous mutant must get a NEW mtime or cargo keeps the stale mutant build
rsync -rlpgoD --checksum --delete --exclude target --exclude .git /repo/ "$S/repo/"
if [ "$PATCH" != "-" ]; then
  (cd "$S/repo" && patch -p1 --no-backup-if-mismatch < "$PATCH") || { echo "MUTANT-RESULT $ID $PATCH rc=patch-failed"; exit 3; }
fi
rsync -rlpgoD --checksum --delete --exclude target /verif/harness/ "$S/verif/harness/"
rsync -a --delete /verif/replays/regress/ "$S/verif/replays/regress/" 2>/dev/null
mkdir -p "$S/verif/replays/regress"
cp /verif/known-findings.txt "$S/verif/" 2>/dev/null
# re-point every /repo reference (Cargo.toml path deps, #[path] includes, include_str!) at the copy
grep -rlE '/repo(/|")' "$S/verif/harness" --include=Cargo.toml --include='*.rs' --include='*.sh' 2>/dev/null | xargs -r sed -i "s#/repo\([/\"]\)#$S/repo\1#g"
cd "$S/verif/harness"
# build only what this check needs: other crates may be mid-edit by someone else
python3 - "$PKG" <<'PY'
import re, sys, os
pkg = sys.argv[1]
need, todo = {"vcore"}, [pkg]
while todo:
    c = todo.pop()
    if c in need and c != pkg and c != "vcore":
        continue
    need.add(c)
    try:
        t = open(os.path.join(c, "Cargo.toml")).read()
    except OSError:
        continue
    for m in re.finditer(r'path\s*=\s*"\.\./([A-Za-z0-9_-]+)"', t):
        if m.group(1) not in need:
            todo.append(m.group(1))
ws = open("Cargo.toml").read()
ws = re.sub(r'members = \[.*?\]', 'members = [' + ", ".join('"%s"' % c for c in sorted(need)) + ']', ws, flags=re.S)
open("Cargo.toml", "w").write(ws)
PY
export CARGO_TARGET_DIR="$S/target" CARGO_NET_OFFLINE=true VERIF_DIR="$S/verif"
if ! cargo build --release -p "$PKG" 2>"$S/build.log"; then
  tail -30 "$S/build.log"
  echo "MUTANT-RESULT $ID $PATCH rc=build-failed"
  exit 3
fi
timeout -k 5 "${MUT_TIMEOUT:-1500}" "$S/target/release/$PKG" run --tier quick --seed "${VERIF_SEED:-0}" "$@" > "$S/run.log" 2>&1
rc=$?
grep -E "^(VIOLATION|  generator=|KNOWN-FINDING|INCONCLUSIVE)" "$S/run.log" | head -8
# same triage of a process abort as ./check does
grep -E "^(ABORTED|HUNG)-WHILE " "$S/run.log" > "$S/run.aborted" 2>/dev/null
/verif/tools/abort_triage.sh "$ID" "$S/target/release/$PKG" "$S/run.aborted" "$rc" || rc=$?
echo "MUTANT-RESULT $ID $PATCH rc=$rc"
