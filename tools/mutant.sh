#!/usr/bin/env bash
# tools/mutant.sh <ID> <patch-file|-> [check args...]
# Sensitivity check (DESIGN §1.9): apply a patch to a scratch copy of /repo, point a scratch copy of the
# harness at it, run the quick check of <ID>. Prints the check's exit code as "MUTANT-RESULT <ID> <patch> rc=<n>".
# rc=1 means the mutant was detected (good). Scratch lives under /root/scratch/mut-<ID>[-$MUT_TAG]; the repo copy is
# refreshed from /repo's working tree for every patch, the cargo target dir is kept between patches for
# incremental builds. Remove the directory when done:  rm -rf /root/scratch/mut-<ID>*
set -u
ID="$1"; PATCH="$2"; shift 2
PKG="$(echo "$ID" | tr 'A-Z' 'a-z')"
S="/root/scratch/mut-$ID${MUT_TAG:+-$MUT_TAG}"
mkdir -p "$S/verif"
# no -t: a file reverted from a previous mutant must get a NEW mtime or cargo keeps the stale mutant build
rsync -rlpgoD --checksum --delete --exclude target --exclude .git /repo/ "$S/repo/"
if [ "$PATCH" != "-" ]; then
  (cd "$S/repo" && patch -p1 --no-backup-if-mismatch < "$PATCH") || { echo "MUTANT-RESULT $ID $PATCH rc=patch-failed"; exit 3; }
fi
rsync -rlpgoD --checksum --delete --exclude target /verif/harness/ "$S/verif/harness/"
rsync -a --delete /verif/replays/regress/ "$S/verif/replays/regress/" 2>/dev/null
mkdir -p "$S/verif/replays/regress"
cp /verif/known-findings.txt "$S/verif/" 2>/dev/null
# re-point every /repo reference (Cargo.toml path deps, #[path] includes, include_str!) at the copy
grep -rlE '/repo(/|")' "$S/verif/harness" --include=Cargo.toml --include='*.rs' --include='*.sh' 2>/dev/null | xargs -r sed -i "s#/repo\([/\"]\)#$S/repo\1#g"
cd "$S/verif/harness"
export CARGO_TARGET_DIR="$S/target" CARGO_NET_OFFLINE=true VERIF_DIR="$S/verif"
if ! cargo build --release -p "$PKG" 2>"$S/build.log"; then
  tail -30 "$S/build.log"
  echo "MUTANT-RESULT $ID $PATCH rc=build-failed"
  exit 3
fi
timeout -k 5 "${MUT_TIMEOUT:-1500}" "$S/target/release/$PKG" run --tier quick --seed "${VERIF_SEED:-0}" "$@" > "$S/run.log" 2>&1
rc=$?
grep -E "^(VIOLATION|  generator=|KNOWN-FINDING|INCONCLUSIVE)" "$S/run.log" | head -8
echo "MUTANT-RESULT $ID $PATCH rc=$rc"
