#!/usr/bin/env bash
# tools/run_mutants.sh <ID> [patch...]  -- run every mutants/<ID>/*.patch (or the given ones) through tools/mutant.sh,
# append results to mutants/<ID>/RESULTS.txt (machine-written), clean the scratch copy afterwards.
ID="$1"; shift
cd /verif
PATCHES=("$@"); [ ${#PATCHES[@]} -eq 0 ] && PATCHES=(mutants/$ID/*.patch)
OUT="mutants/$ID/RESULTS.txt"
for p in "${PATCHES[@]}"; do
  case "$p" in *PROPOSED-FIX*) continue;; esac
  out=$(tools/mutant.sh "$ID" "/verif/$p" 2>&1)
  res="$(echo "$out" | grep -E "^MUTANT-RESULT" | head -1) $(echo "$out" | grep -E "^  generator=" | head -2 | cut -c1-220 | tr '\n' ' ')"
  echo "$(date +%F) $res" | tee -a "$OUT"
done
rm -rf "/root/scratch/mut-$ID${MUT_TAG:+-$MUT_TAG}"
