#!/usr/bin/env python3
"""Regenerates /verif/MANIFEST.json from the table below (kept valid at all times).
A property appears under `checks` as soon as harness/<id>/ exists, otherwise under not_applicable
with the reason "check not built yet" (to be replaced by a real reason if it stays unclaimed)."""
import json, os, subprocess
V = os.path.dirname(os.path.dirname(os.path.abspath(__file__)))

TABLE = {
 "C01": ("exploration", "generated events x ambient sets x filter/destination combinator trees vs logical reference evaluator; generic-vs-erased differential (proptest)", "3/C01"),
 "C02": ("exploration", "generated key/value lists x combinator nestings: get vs first-enumerated reference; generated macro call-site programs (proptest + program generation) + libFuzzer target props_tree", "3/C02"),
 "C03": ("exploration", "generated well-nested frame programs with owned poll schedules, panics and thread hops vs per-thread stack model (proptest, stateful)", "3/C03"),
 "C04": ("exploration", "generated span trees (sync/async/manual, disabled nodes, hops, incoming ids) vs relational trace-tree oracle (proptest)", "3/C04"),
 "C05": ("exploration", "generated SpanGuard operation sequences and macro exit paths vs state-machine model (proptest, stateful)", "3/C05"),
 "C06": ("exploration", "generated and small-scope exhaustive channel histories on a harness-owned schedule vs FIFO/exactly-once model; OS-thread stress (proptest, stateful) + coverage-guided libFuzzer target chan_c06 over the same histories and oracle", "3/C06"),
 "C07": ("exploration", "channel histories with flush requests at every point vs finalised-before-flush invariant; end-to-end file/OTLP flush (proptest, stateful) + coverage-guided libFuzzer target chan_c07 over the same histories and oracle", "3/C07"),
 "C08": ("fault_enumeration", "generated processor outcome sequences (fail/retry/panic), sender drop, panicking callbacks on a virtual clock vs bounded-progress model; blocking entry points from each calling context + coverage-guided libFuzzer target chan_c08 over the same histories and oracle", "3/C08"),
 "C09": ("exploration", "generated send-variant sequences x capacities x stalled receivers vs bounded-queue model (proptest, stateful) + coverage-guided libFuzzer target chan_c09 over the same histories and oracle", "3/C09"),
 "C10": ("fault_enumeration", "batch histories x single-fault-exhaustive and random multi-fault plans x crash images on a model filesystem vs durability/tokeniser oracle + coverage-guided libFuzzer target file_c10 over the same histories and oracle", "3/C10"),
 "C11": ("fault_enumeration", "configurations x clock trajectories x histories x directory contents vs naming/rolling/retention reference and op-log audit (proptest, stateful) + coverage-guided libFuzzer target file_c11 over the same histories and oracle", "3/C11"),
 "C12": ("fault_enumeration", "event streams x per-request collector fault scripts x transports against a scripted local collector vs at-least-once/exactly-once oracle", "3/C12"),
 "C13": ("exploration", "events over a recursive value grammar through every sink, decoded with prost/JSON readers vs reference mapping; proto-vs-JSON differential; libFuzzer target value_to_sinks", "3/C13"),
 "C14": ("exploration", "complete enumeration of event classes x 8 signal subsets against a routing classifier", "3/C14"),
 "C15": ("exploration", "round-trip and independent-recogniser oracles over generated values, near-miss texts, exhaustive short-string/substitution sub-spaces (proptest) + libFuzzer target parse_any", "3/C15"),
 "C16": ("exploration", "generated part sequences, re-splittings and props vs normal-form equality and reference renderer; std::format! differential in generated programs; libFuzzer target template_eq_render", "3/C16"),
 "C17": ("exploration", "generated registration lists x modules x level values vs linear-scan longest-prefix reference; permutation metamorphic relation (proptest) + libFuzzer target level_path_map", "3/C17"),
 "C18": ("exploration", "generated span trees x sampler decision tables x incoming headers x hops vs traceparent stack model and sampler-call log (proptest)", "3/C18"),
 "C19": ("exploration", "generated primitive and structured values x capture modes x read paths: typed round trip and serde/sval cross-framework JSON equality (proptest)", "3/C19"),
 "C20": ("exploration", "generated numbers of racing initialisers/observers with start skews on OS threads vs tagged-component agreement invariant (stress sampling)", "3/C20"),
}

LEVEL_TEXT = json.load(open(os.path.join(V, "tools", "level_text.json"))) if os.path.exists(os.path.join(V, "tools", "level_text.json")) else {}

def hook_commits():
    try:
        out = subprocess.run(["git", "-C", "/repo", "log", "--format=%h %s", "4dcf5f6..HEAD"], capture_output=True, text=True).stdout
        return [l.split()[0] for l in out.splitlines() if l.split(" ", 1)[1].startswith("verif hook")]
    except Exception:
        return []

checks, na = [], []
for pid, (level, technique, ref) in TABLE.items():
    pkg = pid.lower()
    main = os.path.join(V, "harness", pkg, "src", "main.rs")
    if os.path.exists(main) and "stub: check for" not in open(main).read():
        lt = LEVEL_TEXT.get(pid, {})
        checks.append({
            "property_id": pid,
            "quick_cmd": f"./check {pid} --tier quick",
            "thorough_cmd": f"./check {pid} --tier thorough",
            "evidence_file": f"/verif/evidence/{pid}.json",
            "replay_cmd_template": f"./check {pid} --replay {{path}}",
            "engine": "vcore",
            "level_claimed": {
                "category": level,
                "text": lt.get("text", "Generated-input search against an explicit oracle: the property held on every generated/enumerated case; absence beyond the explored set is not established."),
                "design_ref": f"DESIGN.md §{ref}",
            },
            "level_note": lt.get("note", "Trusted: the reference model/oracle in the check crate, proptest's generators and shrinking, rustc."),
            "technique": "property-based testing: " + technique,
        })
    else:
        na.append({"property_id": pid, "reason": "check not built yet (work in progress; see DESIGN.md §6 build order)"})

m = {
  "version": 1,
  "setup_cmd": "./check --setup",
  "hooks": {
    "guard": "--cfg emit_rs_emit_verif",
    "enable": "harness/.cargo/config.toml sets build.rustflags = [\"--cfg\", \"emit_rs_emit_verif\"] for every check build; emit crates are path dependencies on /repo",
    "baseline_off_cmd": "cd /repo && cargo nextest run --workspace --no-fail-fast --offline --test-threads 8",
    "source_commits": hook_commits(),
    "add_only": True,
  },
  "engines": [
    {"name": "vcore", "path": "harness/vcore", "serves_properties": [c["property_id"] for c in checks],
     "kind_free_text": "proptest-driven runner: sharded seeded generation, shrinking to replay files, exhaustive enumerators, classification counters, evidence writer"},
  ],
  "checks": checks,
  "not_applicable": na,
  "notes": "Every check is generated-input search against an explicit oracle (property-based testing / fuzzing). Known findings and fixed defects: known-findings.txt. Design: DESIGN.md.",
}
json.dump(m, open(os.path.join(V, "MANIFEST.json"), "w"), indent=1)
print("checks:", [c["property_id"] for c in checks], "not_applicable:", [n["property_id"] for n in na])
