#!/usr/bin/env bash
# tools/seeded_confirm.sh <ID> <crate-dir> <package> <demo-file.rs>
# Confirm a seeded change in its scratch worktree /tmp/seed-<ID>: demo passes without the patch, fails with it,
# and the pinned suite still passes with the patch applied. DEMO_RUSTFLAGS="--cfg emit_rs_emit_verif" for demos that use the hooks.
ID="$1"; CRATE="$2"; PKG="$3"; DEMO="$4"; W="/tmp/seed-$ID"; T="${DEMO%.rs}"
cd "$W" || exit 2
git checkout -q -- . ; mkdir -p "$CRATE/tests"; cp "_out/demo/$DEMO" "$CRATE/tests/"
echo "--- without patch"; RUSTFLAGS="${DEMO_RUSTFLAGS:-}" CARGO_TARGET_DIR=$W/target${DEMO_RUSTFLAGS:+-verif} cargo test -p "$PKG" --offline --test "$T" ${FEATURES:+--features $FEATURES} 2>&1 | grep -E "^test result|error(\[|:)" | head -3
git apply _out/patch.diff || { echo "patch does not apply"; exit 2; }
echo "--- with patch"; RUSTFLAGS="${DEMO_RUSTFLAGS:-}" CARGO_TARGET_DIR=$W/target${DEMO_RUSTFLAGS:+-verif} cargo test -p "$PKG" --offline --test "$T" ${FEATURES:+--features $FEATURES} 2>&1 | grep -E "^test result|error(\[|:)" | head -3
rm "$CRATE/tests/$DEMO"
echo "--- suite with patch"; CARGO_TARGET_DIR=$W/target cargo nextest run --workspace --no-fail-fast --offline --test-threads 8 2>&1 | grep -E "Summary|FAIL" | head -5
