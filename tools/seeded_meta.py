#!/usr/bin/env python3
"""tools/seeded_meta.py <name> <property> <detected:true|false> -- reads change / needs / confirmed_by / detected_by [/ strengthening] from stdin as `key: text` lines and writes seeded/<name>/meta.json"""
import sys, json
name, prop, det = sys.argv[1:4]
m = {"property": prop}
for line in sys.stdin.read().strip().split("\n"):
    k, _, v = line.partition(": ")
    m[k.strip()] = v.strip()
m["detected"] = det == "true"
if "strengthening" in m:
    m["detected_after_strengthening"] = True
m.setdefault("written_by", "fresh sub-agent given only the property text and a scratch worktree of /repo")
json.dump(m, open(f"/verif/seeded/{name}/meta.json", "w"), indent=1)
