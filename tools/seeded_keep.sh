#!/usr/bin/env bash
# tools/seeded_keep.sh <ID> <name>   -- copy /tmp/seed-<ID>/_out into /verif/seeded/<name>/ and run the quick check of <ID>
# against the change in a scratch copy (tools/mutant.sh). Prints MUTANT-RESULT; meta.json is written by hand afterwards.
ID="$1"; NAME="$2"; SRC="${3:-/tmp/seed-$ID/_out}"
D="/verif/seeded/$NAME"; mkdir -p "$D"
cp -r "$SRC/." "$D/"
cd /verif && MUT_TAG=seed tools/mutant.sh "$ID" "$D/patch.diff" 2>&1 | tail -6 | tee "$D/check-output.txt"
