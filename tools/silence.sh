#!/usr/bin/env bash
# tools/silence.sh <log> <seed>...   -- run the quick tier of every check on the unchanged tree with each seed, from a
# fresh process each, and record exit codes; any rc != 0 or VIOLATION line is a broken check.
LOG="$1"; shift
cd /verif
for seed in "$@"; do
  for id in C01 C02 C03 C04 C05 C06 C07 C08 C09 C10 C11 C12 C13 C14 C15 C16 C17 C18 C19 C20; do
    out=$(./check $id --seed $seed 2>&1); rc=$?
    v=$(echo "$out" | grep -c "^VIOLATION")
    echo "$(date -u +%H:%M:%S) $id seed=$seed rc=$rc violations=$v $(echo "$out" | grep -E "^\[$id\] evaluations" | tail -1)" >> "$LOG"
    if [ $rc -ne 0 ] || [ $v -ne 0 ]; then echo "$out" | tail -30 > "$LOG.$id.$seed.fail"; fi
  done
done
echo "SILENCE-DONE" >> "$LOG"
