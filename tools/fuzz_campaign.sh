#!/usr/bin/env bash
# tools/fuzz_campaign.sh <ID> <target> <tier> <seed> <runs_quick> <runs_thorough> <max_len> [corpus-name]
# Bounded libFuzzer campaign (engine E6). Fresh working corpus copied from /verif/corpus/<corpus-name> (default: <target>;
# the four channel targets share corpus/chan_history, the two file targets corpus/file_history).
# A crash = the in-target oracle failed: the artifact is converted into a replay file for the check binary's
# `fuzz-artifact` generator and reported as a VIOLATION (exit 1). Build problems / missing toolchain: exit 2.
set -u
ID="$1"; TARGET="$2"; TIER="$3"; SEED="$4"; RQ="$5"; RT="$6"; MAXLEN="$7"; CORPUS="${8:-$2}"
V="${VERIF_DIR:-/verif}"
F="$V/fuzzing"
RUNS="$RQ"; [ "$TIER" = thorough ] && RUNS="$RT"
WORK="$F/fuzz/corpus/$TARGET"; ART="$F/fuzz/artifacts/$TARGET"
rm -rf "$WORK" "$ART"; mkdir -p "$WORK" "$ART"
cp -r "$V/corpus/$CORPUS/." "$WORK/" 2>/dev/null
LOG="$F/fuzz/$TARGET.log"
cd "$F" || exit 2
export CARGO_NET_OFFLINE=true VERIF_DIR="$V"
# cargo-fuzz builds with its own RUSTFLAGS (the harness .cargo/config.toml is not consulted): pass the hook guard explicitly
export RUSTFLAGS="--cfg emit_rs_emit_verif ${RUSTFLAGS:-}"
if ! cargo +nightly fuzz build "$TARGET" >"$LOG.build" 2>&1; then
  tail -20 "$LOG.build" >&2; echo "INCONCLUSIVE: fuzz build failed for $TARGET" >&2; exit 2
fi
JOBS=1; [ "$TIER" = thorough ] && JOBS=12
PER=$((RUNS / JOBS))
t0=$(date +%s)
if [ "$JOBS" -gt 1 ]; then
  (cd "$F/fuzz" && cargo +nightly fuzz run "$TARGET" -- -runs="$PER" -seed=$((SEED + 1)) -max_len="$MAXLEN" -len_control=0 -print_final_stats=1 -jobs="$JOBS" -workers="$JOBS" >"$LOG" 2>&1)
  rc=$?
  # (the parent's output already contains every job's log: do not append fuzz-*.log again)
  rm -f "$F"/fuzz/fuzz-*.log
else
  cargo +nightly fuzz run "$TARGET" -- -runs="$PER" -seed=$((SEED + 1)) -max_len="$MAXLEN" -len_control=0 -print_final_stats=1 >"$LOG" 2>&1
  rc=$?
fi
t1=$(date +%s)
EXEC=$(grep -a "stat::number_of_executed_units" "$LOG" | awk '{s+=$2} END {print s+0}')
COV=$(grep -a -o "cov: [0-9]*" "$LOG" | awk '{if ($2>m) m=$2} END {print m+0}')
CORP=$(ls "$WORK" | wc -l)
python3 - "$V/evidence/$ID.json" "$TARGET" "$EXEC" "$COV" "$CORP" "$((t1 - t0))" "$RUNS" <<'PY'
import json, sys
path, target, execs, cov, corp, secs, runs = sys.argv[1:]
try:
    e = json.load(open(path))
except Exception:
    sys.exit(0)
e["coverage"].setdefault("fuzz", {})[target] = {"engine": "libFuzzer (cargo-fuzz)", "runs_requested": int(runs), "executed_units": int(execs), "cov_edges": int(cov), "final_corpus_files": int(corp), "wall_s": int(secs)}
e["coverage"]["evaluations"] = e["coverage"]["evaluations"] + int(execs)
e["wall_s"] = e["wall_s"] + int(secs)
json.dump(e, open(path, "w"), indent=1)
PY
CRASH=$(ls "$ART" 2>/dev/null | grep -E "^(crash|oom|timeout)-" | head -1)
if [ -n "$CRASH" ]; then
  case "$CRASH" in
    crash-*)
      OUT="$V/replays/$ID-fuzz-$TARGET-${CRASH#crash-}.json"
      python3 - "$ART/$CRASH" "$OUT" "$ID" <<'PY'
import json, sys
data = list(open(sys.argv[1], "rb").read())
json.dump({"property": sys.argv[3], "generator": "fuzz-artifact", "reason": "libFuzzer artifact", "case": data}, open(sys.argv[2], "w"))
PY
      grep -a "oracle failed" "$LOG" | head -2
      echo "VIOLATION property=$ID replay=$OUT"
      exit 1;;
    *) echo "INCONCLUSIVE: libFuzzer reported $CRASH (resource limit, not a verdict)" >&2; exit 2;;
  esac
fi
if [ $rc -ne 0 ]; then tail -5 "$LOG" >&2; echo "INCONCLUSIVE: fuzz run for $TARGET exited $rc without an artifact" >&2; exit 2; fi
echo "[$ID] fuzz $TARGET: $EXEC executions, cov $COV, corpus $CORP files, ${t1}-${t0}" | sed "s/${t1}-${t0}/$((t1 - t0))s/" >&2
exit 0
