#!/usr/bin/env python3
"""Regenerates appendices D (sensitivity mutants) and E (independently seeded changes) of DESIGN.md from
mutants/<ID>/RESULTS.* and seeded/*/meta.json. Idempotent: replaces the text between the markers."""
import json, os, re, glob
V = os.path.dirname(os.path.dirname(os.path.abspath(__file__)))

def mutants_section():
    rows = []
    for pid in ["C%02d" % i for i in range(1, 21)]:
        d = os.path.join(V, "mutants", pid)
        if not os.path.isdir(d):
            continue
        patches = sorted(f for f in os.listdir(d) if f.endswith(".patch") and not re.search(r"(?i)proposed|^base\d|fix-", f))
        detected, missed, unknown = [], [], []
        txt = os.path.join(d, "RESULTS.txt")
        md = os.path.join(d, "RESULTS.md")
        res = {}
        if os.path.exists(txt):
            for l in open(txt):
                m = re.search(r"MUTANT-RESULT \S+ \S+/([^/ ]+\.patch) rc=(\S+)", l)
                if m:
                    res[m.group(1)] = m.group(2)
        mdtext = open(md).read() if os.path.exists(md) else ""
        for p in patches:
            if p in res:
                (detected if res[p] == "1" else missed).append(p)
            elif mdtext:
                stem = p[:-6]
                key = stem.split("-")[0]
                line = next((l for l in mdtext.splitlines() if stem in l or re.search(r"\b%s\b" % re.escape(key), l)), "")
                if re.search(r"rc\s*=?\s*0\b", line) and not re.search(r"rc\s*=?\s*1\b", line):
                    missed.append(p)
                else:
                    detected.append(p)
            else:
                unknown.append(p)
        rows.append((pid, len(patches), len(detected), missed, unknown, "RESULTS.md" if mdtext and not res else "RESULTS.txt"))
    out = ["| prop | mutants | detected by the quick tier | not detected | results file |", "|------|---------|----------------------------|--------------|--------------|"]
    for pid, n, det, missed, unknown, f in rows:
        nd = ", ".join(m[:-6] for m in missed) or "—"
        if unknown:
            nd += " (no result recorded: " + ", ".join(u[:-6] for u in unknown) + ")"
        out.append(f"| {pid} | {n} | {det} | {nd} | mutants/{pid}/{f} |")
    return "\n".join(out)

def seeded_section():
    out = ["| seeded change | prop | what it needs to manifest | first run | after strengthening |", "|---------------|------|---------------------------|-----------|---------------------|"]
    n = det = late = 0
    for p in sorted(glob.glob(os.path.join(V, "seeded", "*", "meta.json"))):
        m = json.load(open(p))
        name = os.path.basename(os.path.dirname(p))
        n += 1
        first = "DETECTED — " + m.get("detected_by", "") if m.get("detected") else "MISSED"
        if m.get("detected"):
            det += 1
        after = ""
        if not m.get("detected"):
            if m.get("detected_after_strengthening"):
                late += 1
                after = "detected — " + m.get("strengthening", "")
            else:
                after = "strengthening in progress / see meta.json"
        out.append("| %s | %s | %s | %s | %s |" % (name, m["property"], m["needs_to_manifest"].replace("|", "/"), first.replace("|", "/")[:260], after.replace("|", "/")[:260]))
    head = f"{n} changes kept; {det} detected by the check as it stood when the change arrived, {late} more after the check was strengthened in response, {n - det - late} still open.\n\n"
    return head + "\n".join(out)

p = os.path.join(V, "DESIGN.md")
s = open(p).read()
for tag, body in [("APPENDIX-D", mutants_section()), ("APPENDIX-E", seeded_section())]:
    b, e = f"<!-- {tag}-BEGIN -->", f"<!-- {tag}-END -->"
    if b not in s:
        continue
    s = s[: s.index(b) + len(b)] + "\n" + body + "\n" + s[s.index(e):]
open(p, "w").write(s)
print("appendices regenerated")
